#!/bin/sh
# usage: selftest/run_all.sh [pattern]   - runs every mutant patch against the check of its property
# (name prefix CNN-) and writes selftest/RESULTS.md. A mutant that is not caught is a hole in the check.
cd "$(dirname "$0")/.." || exit 2
PAT=${1:-C}
OUT=selftest/RESULTS.md
echo "| mutant | quick check result |" > $OUT.tmp
echo "|---|---|" >> $OUT.tmp
for m in selftest/mutants/$PAT*.patch; do
  id=$(basename "$m" | cut -c1-3)
  r=$(selftest/with_patch.sh "$m" "$id" 2>&1 | grep -v conda | grep -v KNOWN-FINDING | head -1 | cut -c1-200)
  echo "| $(basename "$m" .patch) | $r |" >> $OUT.tmp
  echo "$(basename "$m" .patch): $r"
done
mv $OUT.tmp $OUT

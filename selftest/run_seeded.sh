#!/bin/sh
# usage: selftest/run_seeded.sh [pattern] [parallel]
# Re-runs every kept seeded change (seeded/<name>/patch.diff) against the quick check of its property
# (for the three changes recorded as caught by a sibling property: that one) and writes
# selftest/SEEDED_RESULTS.md. A change that applies and is not caught is a regression of the checks.
cd "$(dirname "$0")/.." || exit 2
PAT=${1:-C}; PAR=${2:-3}
ls -d seeded/$PAT* | xargs -P "$PAR" -I{} sh -c '
  d={}; n=$(basename "$d"); id=${n%%-*}
  case "$n" in C03-s3|C05-s3|C03-u2|C03-u3) id=C04;; C06-s2) id=C09;; C01-u3) id=C05;;
    C01-v2|C19-v1) id=C13;; C02-v1|C16-v1) id=C03;; C04-v1|C12-v1) id=C09;; C04-v2) id=C11;; C09-v1) id=C04;; C14-v1) id=C01;;
    C13-u2) echo "| $n | obsolete: the change is now part of /repo (fix cad623b), see meta.json |"; exit 0;;
    C01-v3|C08-v2) echo "| $n | not judged (outside the statement, see meta.json) |"; exit 0;; esac
  r=$(timeout 1800 selftest/with_patch.sh "$d/patch.diff" "$id" 2>&1 | grep -v conda | grep -v KNOWN-FINDING | head -1 | cut -c1-160)
  echo "| $n | $r |"' > selftest/SEEDED_RESULTS.tmp
{ echo "| seeded change | quick check result (current checks, current /repo HEAD) |"; echo "|---|---|"; sort selftest/SEEDED_RESULTS.tmp; } > selftest/SEEDED_RESULTS.md
rm -f selftest/SEEDED_RESULTS.tmp
grep -c "exit=1" selftest/SEEDED_RESULTS.md

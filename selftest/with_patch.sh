#!/bin/sh
# usage: selftest/with_patch.sh <patch.diff> <ID>[,<ID>...] [tier]
# Applies the patch to a scratch copy of /repo (outside /repo and /verif),
# runs the given checks against it (VERIF_REPO), removes the copy.
# Prints one line per check: "<ID> exit=<code>".
P=$(realpath "$1"); IDS=$2; TIER=${3:-quick}
D=$(mktemp -d /tmp/lena-mut-XXXXXX)
mkdir -p "$D/repo"
cp -r /repo/lena "$D/repo/lena"
[ -d /repo/docs/examples ] && mkdir -p "$D/repo/docs" && cp -r /repo/docs/examples "$D/repo/docs/" 2>/dev/null
( cd "$D/repo" && patch -s -p1 < "$P" ) || { echo "PATCH-FAILED $P"; rm -rf "$D"; exit 3; }
cd "$(dirname "$0")/.."
rc=0
for ID in $(echo "$IDS" | tr ',' ' '); do
  VERIF_REPO="$D/repo" VERIF_NO_EVIDENCE=1 ./check "$ID" "$TIER" > "$D/out.$ID" 2>&1
  c=$?
  echo "$ID exit=$c $(grep -m1 -o 'violated.*' "$D/out.$ID")"
  [ "$c" = 2 ] && tail -20 "$D/out.$ID"
done
rm -rf "$D"

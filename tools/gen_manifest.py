#!/venv/bin/python
"""Regenerate MANIFEST.json from the table below (python tools/gen_manifest.py)."""
import json, os
HERE = os.path.dirname(os.path.dirname(os.path.abspath(__file__)))

# id -> (category, technique, level text, level note, design ref)
CLAIMED = {}
NOT_BUILT = {}

def claim(pid, technique, text, note, category="exploration"):
    CLAIMED[pid] = (category, technique, text, note)

exec(open(os.path.join(HERE, "tools", "manifest_table.py")).read())

props = [json.loads(l) for l in open(os.path.join(HERE, "properties.jsonl"))]
checks = []
na = []
for p in props:
    pid = p["id"]
    if pid in CLAIMED:
        cat, tech, text, note = CLAIMED[pid]
        checks.append({
            "property_id": pid,
            "quick_cmd": "./check %s quick" % pid,
            "thorough_cmd": "./check %s thorough" % pid,
            "evidence_file": "evidence/%s.json" % pid,
            "replay_cmd_template": "./check %s quick --replay {path}" % pid,
            "engine": "harness",
            "level_claimed": {"category": cat, "text": text,
                              "design_ref": "DESIGN.md section 4, %s" % pid},
            "level_note": note,
            "technique": tech,
        })
    else:
        na.append({"property_id": pid, "reason": NOT_BUILT.get(
            pid, "check not built yet in this session; planned with property-based testing (DESIGN.md section 4)")})
m = {
    "version": 1,
    "setup_cmd": "sh tools/setup.sh",
    "hooks": {
        "guard": "YNIKITENKO_LENA_VERIF",
        "enable": "no source hooks: the harness instruments lena from outside (wrapper iterators, sys.monitoring, audit hook, PATH stubs); checks export YNIKITENKO_LENA_VERIF=1 and put $VERIF_REPO (default /repo) first on sys.path so the current working tree is exercised",
        "baseline_off_cmd": "cd /repo && /venv/bin/python -m pytest -ra -q -p no:cacheprovider --timeout=900 --continue-on-collection-errors",
        "source_commits": [],
        "add_only": True,
    },
    "engines": [{
        "name": "harness",
        "path": "harness/",
        "serves_properties": sorted(CLAIMED),
        "kind_free_text": "Hypothesis 6.168 strategies and exhaustive enumerations producing JSON-able cases, judged by per-property reference models / differential / metamorphic oracles (harness/props/cNN.py); failures shrink to JSON replay files re-judged without Hypothesis",
    }],
    "checks": checks,
    "not_applicable": na,
    "notes": "Every check: ./check <ID> <quick|thorough>; VERIF_SEED selects the Hypothesis seed; exit 2 = harness error (never a violation). known_findings.json lists recorded defects (known) and repaired ones (fixed).",
}
if not na:
    del m["not_applicable"]
json.dump(m, open(os.path.join(HERE, "MANIFEST.json"), "w"), indent=1)
print("claimed", len(checks), "not_applicable", len(na))

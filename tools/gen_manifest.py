#!/venv/bin/python
"""Regenerate MANIFEST.json from the table below (python tools/gen_manifest.py)."""
import json, os, re
HERE = os.path.dirname(os.path.dirname(os.path.abspath(__file__)))

# id -> (category, technique, level text, level note, design ref)
CLAIMED = {}
NOT_BUILT = {}

def claim(pid, technique, text, note, category="exploration"):
    CLAIMED[pid] = (category, technique, text, note)

exec(open(os.path.join(HERE, "tools", "manifest_table.py")).read())

props = [json.loads(l) for l in open(os.path.join(HERE, "properties.jsonl"))]
checks = []
na = []
for p in props:
    pid = p["id"]
    if pid in CLAIMED:
        cat, tech, text, note = CLAIMED[pid]
        # coverage-guided companions (harness/covfuzz.py) registered in the property's module
        src = open(os.path.join(HERE, "harness", "props", pid.lower() + ".py")).read()
        cov = re.findall(r'covfuzz\.check\(CHECKS, "[\w.]+", "(\w+)"', src)
        if cov:
            tech += "; coverage-guided (atheris/libFuzzer driving the same Hypothesis strategy through fuzz_one_input, lena instrumented, same judge in the target) for " + ", ".join(cov)
            text += " The generators of [%s] are additionally explored coverage-guided (libFuzzer mutating the byte string Hypothesis decodes into the strategy's choices); also sampling." % ", ".join(cov)
        checks.append({
            "property_id": pid,
            "quick_cmd": "./check %s quick" % pid,
            "thorough_cmd": "./check %s thorough" % pid,
            "evidence_file": "evidence/%s.json" % pid,
            "replay_cmd_template": "./check %s quick --replay {path}" % pid,
            "engine": "harness",
            "level_claimed": {"category": cat, "text": text,
                              "design_ref": "DESIGN.md section 4, %s" % pid},
            "level_note": note,
            "technique": tech,
        })
    else:
        na.append({"property_id": pid, "reason": NOT_BUILT.get(
            pid, "check not built yet in this session; planned with property-based testing (DESIGN.md section 4)")})
m = {
    "version": 1,
    "setup_cmd": "sh tools/setup.sh",
    "hooks": {
        "guard": "YNIKITENKO_LENA_VERIF",
        "enable": "no source hooks: the harness instruments lena from outside (wrapper iterators, sys.monitoring, audit hook, PATH stubs); checks export YNIKITENKO_LENA_VERIF=1 and put $VERIF_REPO (default /repo) first on sys.path so the current working tree is exercised",
        "baseline_off_cmd": "cd /repo && /venv/bin/python -m pytest -ra -q -p no:cacheprovider --timeout=900 --continue-on-collection-errors",
        "source_commits": [],
        "add_only": True,
    },
    "engines": [{
        "name": "harness",
        "path": "harness/",
        "serves_properties": sorted(CLAIMED),
        "kind_free_text": "Hypothesis 6.168 strategies (random and, through atheris/libFuzzer + fuzz_one_input, coverage-guided) and exhaustive enumerations producing JSON-able cases, judged by per-property reference models / differential / metamorphic oracles (harness/props/cNN.py); failures shrink to JSON replay files re-judged without Hypothesis",
    }],
    "checks": checks,
    "not_applicable": na,
    "notes": "Every check: ./check <ID> <quick|thorough>; VERIF_SEED selects the Hypothesis seed; exit 2 = harness error without any violation (never reported as a violation). known_findings.json lists recorded defects (known) and repaired ones (fixed).",
}
json.dump(m, open(os.path.join(HERE, "MANIFEST.json"), "w"), indent=1)
print("claimed", len(checks), "not_applicable", len(na))

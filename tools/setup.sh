#!/bin/sh
# Offline setup: make sure hypothesis is importable by /venv/bin/python, and
# put atheris (used by the C08 fuzz check only) under .deps; both come from
# the local wheelhouse, nothing is fetched.
cd "$(dirname "$0")/.." || exit 1
if ! /venv/bin/python -c "import hypothesis" 2>/dev/null; then
  /venv/bin/pip install --no-index --find-links /opt/veriftools/wheels hypothesis || \
  /venv/bin/pip install --no-index --find-links /opt/veriftools/wheels --target .deps hypothesis || exit 1
fi
if ! PYTHONPATH=.deps /venv/bin/python -c "import atheris" 2>/dev/null; then
  # optional: without it the fuzz check reports that atheris is missing and judges two fixed inputs
  /venv/bin/pip install -q --no-index --find-links /opt/veriftools/wheels --target .deps atheris >/dev/null 2>&1 || echo "atheris not installed (C08 fuzz check will be skipped)"
fi
/venv/bin/python -c "import hypothesis, jinja2; print('hypothesis', hypothesis.__version__)" || exit 1
mkdir -p evidence out/replays
exit 0

#!/bin/sh
# Offline setup: make sure hypothesis is importable by /venv/bin/python.
cd "$(dirname "$0")/.." || exit 1
if ! /venv/bin/python -c "import hypothesis" 2>/dev/null; then
  /venv/bin/pip install --no-index --find-links /opt/veriftools/wheels hypothesis || \
  /venv/bin/pip install --no-index --find-links /opt/veriftools/wheels --target .deps hypothesis || exit 1
fi
/venv/bin/python -c "import hypothesis, jinja2; print('hypothesis', hypothesis.__version__)" || exit 1
mkdir -p evidence out/replays
exit 0

"""print the prompt for a mutation sub-agent: python tools/agent_prompt.py C05 [n_changes]"""
import json, sys
pid = sys.argv[1]; n = int(sys.argv[2]) if len(sys.argv) > 2 else 2
wt = sys.argv[3] if len(sys.argv) > 3 else "/tmp/wt-%s" % pid
p = [json.loads(l) for l in open('/verif/properties.jsonl') if json.loads(l)['id'] == pid][0]
print(f"""You are helping to evaluate a verification effort for the open-source Python library ynikitenko/lena (a data-analysis framework of lazy dataflow sequences, histograms, context utilities and output rendering). Your job is to act as a realistic "bug seeder".

You have your own scratch git worktree of the library at {wt} (a checkout of the current HEAD). Work ONLY inside {wt} and /tmp/seeded-out. Do NOT read or touch /repo, /verif or any other directory of this machine besides those two (and the Python installation). Do not commit anything.

## The property

Title: {p['title']}

Statement: {p['statement']}

Quantified over: {p['quantifier']['text']}

Code it is anchored in: {', '.join(p['anchors']['files'])}

## What to produce

Produce {n} independent changes (each one a separate small patch against the clean worktree, touching different mechanisms if possible) to the library source under {wt}/lena such that, for each change:

1. the library still imports and the existing test suite still passes completely with the change applied. Run it as:
   cd {wt} && /venv/bin/python -m pytest -q -p no:cacheprovider -x
   (153 tests; `python -m pytest` run from the worktree imports the worktree's lena, not the installed one).
2. the change BREAKS the property above (some part of its statement becomes false for some input / sequence of operations).
3. the breakage needs something specific to manifest: an unusual input, a multi-step sequence of operations, a particular configuration/bufsize/index combination, a boundary value, or two cooperating sites that each look fine alone. It must NOT be something ordinary use or the simplest example would expose at once. It should look like a plausible mistake or "optimisation" a maintainer could make (off-by-one, wrong comparison, forgotten copy, dropped case, wrong order, missing reset, early return, swallowed exception...), not an obviously malicious edit, and should be a few lines.
4. you provide a demonstration: a small standalone Python program demo.py that takes no arguments, imports lena (it will be run as `PYTHONPATH=<tree> /venv/bin/python demo.py`), and exits 0 when the property holds for its scenario (clean tree) and exits 1 (printing what went wrong) with your change applied. Verify both: run it with PYTHONPATH={wt} with the change applied (must exit 1) and after `git checkout -- .` (must exit 0). Do NOT use `git stash` (the stash is shared with other worktrees of the same repository): save your change with `git diff > file`, restore with `git checkout -- .`, re-apply with `git apply file`.

For change number k (1..{n}) write these files:
  /tmp/seeded-out/{pid}-k/patch.diff   (output of `git -C {wt} diff` with only that change applied; it must apply with `git apply` to a clean checkout)
  /tmp/seeded-out/{pid}-k/demo.py
  /tmp/seeded-out/{pid}-k/notes.md     (which part of the statement it breaks, what exactly is needed for it to manifest, the commands you ran and their results)

After writing each patch, restore the worktree to clean state (git -C {wt} checkout -- .) before starting the next one. When finished, leave the worktree clean and reply with a short summary of each change (file, what was changed, what is needed to trigger it) and confirm the test-suite result and the demo result for both states.
""")

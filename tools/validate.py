"""python3-vt tools/validate.py : validate MANIFEST.json and evidence/*.json against the schemas."""
import json, glob, jsonschema, sys
ok = True
def v(path, schema):
    global ok
    try:
        jsonschema.validate(json.load(open(path)), json.load(open(schema)))
    except Exception as e:
        ok = False; print("INVALID", path, str(e)[:300])
v('/verif/MANIFEST.json', '/root/.vp/MANIFEST.schema.json')
for f in sorted(glob.glob('/verif/evidence/*.json')):
    v(f, '/root/.vp/EVIDENCE.schema.json')
print("all valid" if ok else "FAILED"); sys.exit(0 if ok else 1)

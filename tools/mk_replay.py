"""/venv/bin/python tools/mk_replay.py <ID> <check> <name> '<json case>' ['<what>']
Write a hand-made regression replay (must pass on the current tree)."""
import sys, json, os, importlib
sys.path.insert(0, os.path.dirname(os.path.dirname(os.path.abspath(__file__))))
from harness import core
pid, check, name, case = sys.argv[1:5]
what = sys.argv[5] if len(sys.argv) > 5 else ""
case = json.loads(case)
mod = importlib.import_module("harness.props." + pid.lower())
v = core.replay_case(mod, check, case)
print("result on current tree:", "passes" if v is None else ("FAILS " + v.sig + " " + v.detail[:300]))
path = os.path.join(core.VERIF, "replays", "%s-%s.json" % (pid, name))
json.dump({"property": pid, "check": check, "case": case, "note": what}, open(path, "w"), indent=1, sort_keys=True)
print("wrote", path)

"""python3 tools/mutant.py <name> <file relative to repo> <old> <new> [count]
Create selftest/mutants/<name>.patch replacing the (count-th, default only) occurrence of old by new."""
import sys, os, subprocess, tempfile, shutil
name, rel, old, new = sys.argv[1:5]
nth = int(sys.argv[5]) if len(sys.argv) > 5 else None
src = open(os.path.join('/repo', rel)).read()
cnt = src.count(old)
if cnt == 0 or (cnt > 1 and nth is None):
    sys.exit("occurrences of old: %d" % cnt)
if nth is None:
    out = src.replace(old, new)
else:
    parts = src.split(old)
    out = old.join(parts[:nth]) + new + old.join(parts[nth:])
d = tempfile.mkdtemp()
try:
    a = os.path.join(d, 'a', rel); b = os.path.join(d, 'b', rel)
    os.makedirs(os.path.dirname(a)); os.makedirs(os.path.dirname(b))
    open(a, 'w').write(src); open(b, 'w').write(out)
    p = subprocess.run(['diff', '-u', os.path.join('a', rel), os.path.join('b', rel)], cwd=d, capture_output=True, text=True).stdout
    open(os.path.join('/verif/selftest/mutants', name + '.patch'), 'w').write(p)
    print("wrote", name, len(p.splitlines()), "lines")
finally:
    shutil.rmtree(d)

"""python3 tools/seeded_table.py : rewrite the seeded-changes table in DESIGN.md (between the markers)."""
import json, glob, os, re
HERE = os.path.dirname(os.path.dirname(os.path.abspath(__file__)))
rows = ["| change | needs, in order to manifest | result of the checks |", "|---|---|---|"]
def key(p):
    n = os.path.basename(os.path.dirname(p))
    m = re.match(r"(C\d+)-([a-z]?)(\d+)", n)
    return (m.group(1), m.group(2), int(m.group(3)))
for d in sorted(glob.glob(os.path.join(HERE, "seeded", "*", "meta.json")), key=key):
    m = json.load(open(d))
    name = os.path.basename(os.path.dirname(d))
    rows.append("| %s | %s | %s |" % (name, m["needs_to_manifest"].replace("|", "/"), m["confirmed"]["check_results"].replace("|", "/")))
p = os.path.join(HERE, "DESIGN.md")
s = open(p).read()
a, b = "<!-- seeded-table-begin -->", "<!-- seeded-table-end -->"
i, j = s.index(a) + len(a), s.index(b)
s = s[:i] + "\n" + "\n".join(rows) + "\n" + s[j:]
open(p, "w").write(s)
print(len(rows) - 2, "rows")

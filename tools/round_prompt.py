# python tools/round_prompt.py C05 : agent_prompt.py text + the list of what earlier seeders needed (to be avoided); writes /tmp/prompts/C05.txt
import json, sys, glob, subprocess, os
pid = sys.argv[1]
base = subprocess.check_output(['/venv/bin/python', '/verif/tools/agent_prompt.py', pid, '3']).decode()
base = base.replace('/tmp/seeded-out/%s-k' % pid, '/tmp/seeded-out/%s-vk' % pid)
used = []
for m in sorted(glob.glob('/verif/seeded/%s-*/meta.json' % pid)):
    used.append('- ' + json.load(open(m))['needs_to_manifest'])
extra = """
## Mechanisms already used by earlier seeders (do NOT repeat these; find different ones)

Earlier bug seeders working on this same property have already produced changes that need the following in order to manifest. Choose mechanisms, code sites and triggering conditions that are clearly different from all of these - look at parts of the statement, option combinations, code paths, element kinds, input shapes, magnitudes, orders of operations, re-use patterns and interactions between two modules that none of them touches. Read the anchored code (and the code it calls) carefully to find such places; subtle is better than big.

%s

(For k = 1, 2, 3 the output directories are /tmp/seeded-out/%s-v1, /tmp/seeded-out/%s-v2, /tmp/seeded-out/%s-v3.)
""" % ('\n'.join(used), pid, pid, pid)
open('/tmp/prompts/%s.txt' % pid, 'w').write(base + extra)

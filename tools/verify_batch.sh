#!/bin/sh
# usage: tools/verify_batch.sh <dir with <ID>-xN subdirectories> : verifies every seeded change found there
# against the check of its own property (quick tier), one summary line each.
for d in "$1"/C*-*; do
  [ -f "$d/patch.diff" ] || continue
  n=$(basename "$d"); id=${n%%-*}
  out=$(timeout 1800 "$(dirname "$0")/verify_seeded.sh" "$d" "$id" 2>&1)
  echo "$n | $(echo "$out" | grep -c 'demo clean exit=0')$(echo "$out" | grep -c 'demo patched exit=1')$(echo "$out" | grep -c '153 passed') | $(echo "$out" | grep "$id quick" | head -1)"
done

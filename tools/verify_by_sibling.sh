#!/bin/sh
# usage: vx.sh <name> <ID>  -> check of another property against a seeded change
out=$(timeout 2400 /verif/tools/verify_seeded.sh /tmp/seeded-out/$1 "$2" 2>&1)
echo "$1 by $2 | $(echo "$out" | grep "$2 quick" | head -1)"

"""Automatic mutation sweep (sensitivity measurement, not a registered check).

python tools/mutsweep.py --per-file 12 --seed 1 --jobs 8 --out selftest/mutsweep/run1.jsonl [--files lena/core/split.py,...]

For every anchored source file of the properties, enumerate syntactic mutation
sites (comparison / boolean / arithmetic operators, small constants, `not`,
removed deepcopy, removed statements, break<->continue, swapped if/else), sample
`--per-file` of them with a seeded PRNG, and for each mutant:

  1. write it into a private scratch copy of /repo (lena + tests) outside /repo and /verif,
  2. run the repository's own test suite there (-x); a mutant the suite kills is dropped,
  3. run the quick check of every property anchored in that file with VERIF_REPO
     pointing at the scratch copy; exit 1 = killed by the checks, all exit 0 = survivor.

Survivors are written as patches to <out>.survivors/ for triage (equivalent
mutant, outside every property, or a gap of the checks).
"""
import argparse, ast, copy, json, os, random, shutil, subprocess, sys, tempfile, difflib, time
from concurrent.futures import ProcessPoolExecutor, as_completed

REPO = '/repo'
VERIF = os.path.dirname(os.path.dirname(os.path.abspath(__file__)))

CMP = {ast.Lt: ast.LtE, ast.LtE: ast.Lt, ast.Gt: ast.GtE, ast.GtE: ast.Gt, ast.Eq: ast.NotEq,
       ast.NotEq: ast.Eq, ast.Is: ast.IsNot, ast.IsNot: ast.Is, ast.In: ast.NotIn, ast.NotIn: ast.In}
BIN = {ast.Add: ast.Sub, ast.Sub: ast.Add, ast.Mult: ast.FloorDiv, ast.Div: ast.Mult, ast.FloorDiv: ast.Mult,
       ast.Mod: ast.FloorDiv}


def anchors():
    m = {}
    for l in open(os.path.join(VERIF, 'properties.jsonl')):
        p = json.loads(l)
        for f in p['anchors']['files']:
            m.setdefault(f, []).append(p['id'])
    return m


class Site:
    def __init__(self, node, new_src, op, whole_stmt=False):
        self.node, self.new_src, self.op = node, new_src, op


def sites_of(src):
    tree = ast.parse(src)
    out = []
    docstrings = set()
    for n in ast.walk(tree):
        if isinstance(n, (ast.FunctionDef, ast.ClassDef, ast.Module, ast.AsyncFunctionDef)):
            b = n.body
            if b and isinstance(b[0], ast.Expr) and isinstance(getattr(b[0], 'value', None), ast.Constant) \
                    and isinstance(b[0].value.value, str):
                docstrings.add(id(b[0]))

    def add(node, new, op):
        try:
            s = ast.unparse(new) if not isinstance(new, str) else new
        except Exception:
            return
        out.append(Site(node, s, op))

    for n in ast.walk(tree):
        if isinstance(n, ast.Compare):
            for i, o in enumerate(n.ops):
                if type(o) in CMP:
                    m = copy.deepcopy(n); m.ops[i] = CMP[type(o)]()
                    add(n, m, 'cmp:%s->%s' % (type(o).__name__, CMP[type(o)].__name__))
                if isinstance(o, (ast.Lt, ast.Gt, ast.LtE, ast.GtE)):
                    pass
        elif isinstance(n, ast.BoolOp):
            m = copy.deepcopy(n); m.op = ast.Or() if isinstance(n.op, ast.And) else ast.And()
            add(n, m, 'bool:%s' % type(n.op).__name__)
            if len(n.values) >= 2:
                m = copy.deepcopy(n); m.values = m.values[:-1]
                add(n, m if len(m.values) > 1 else m.values[0], 'bool:drop-last-operand')
        elif isinstance(n, ast.UnaryOp) and isinstance(n.op, ast.Not):
            add(n, copy.deepcopy(n.operand), 'not:removed')
        elif isinstance(n, ast.BinOp) and type(n.op) in BIN:
            if isinstance(n.op, ast.Mod) and isinstance(n.left, ast.Constant) and isinstance(n.left.value, str):
                continue
            if isinstance(n.op, ast.Add) and any(isinstance(x, ast.Constant) and isinstance(x.value, str) for x in (n.left, n.right)):
                continue
            m = copy.deepcopy(n); m.op = BIN[type(n.op)]()
            add(n, m, 'bin:%s->%s' % (type(n.op).__name__, BIN[type(n.op)].__name__))
        elif isinstance(n, ast.Constant) and not isinstance(n.value, str):
            v = n.value
            if v is True or v is False:
                add(n, ast.Constant(not v), 'const:%r->%r' % (v, not v))
            elif isinstance(v, int) and abs(v) <= 3:
                add(n, ast.Constant(v + 1), 'const:%r->%r' % (v, v + 1))
                if v != 0:
                    add(n, ast.Constant(v - 1), 'const:%r->%r' % (v, v - 1))
            elif v is None:
                pass
        elif isinstance(n, ast.Call):
            f = n.func
            name = f.attr if isinstance(f, ast.Attribute) else getattr(f, 'id', None)
            if name in ('deepcopy', 'copy') and len(n.args) == 1 and not n.keywords:
                add(n, copy.deepcopy(n.args[0]), 'call:%s-removed' % name)
            if name in ('list', 'tuple', 'sorted', 'reversed') and len(n.args) == 1 and not n.keywords:
                add(n, copy.deepcopy(n.args[0]), 'call:%s-removed' % name)
        elif isinstance(n, ast.Break):
            add(n, 'continue', 'break->continue')
        elif isinstance(n, ast.Continue):
            add(n, 'break', 'continue->break')
        elif isinstance(n, ast.If):
            m = ast.UnaryOp(ast.Not(), copy.deepcopy(n.test))
            # replace only the test expression
            out.append(Site(n.test, '(' + ast.unparse(m) + ')', 'if:negated'))
        elif isinstance(n, ast.Slice):
            pass
        elif isinstance(n, ast.Subscript) and isinstance(n.slice, ast.Constant) and isinstance(n.slice.value, int):
            pass
        if isinstance(n, (ast.Expr, ast.Assign, ast.AugAssign, ast.Raise, ast.Return)) and id(n) not in docstrings:
            if isinstance(n, ast.Return):
                if n.value is not None and not (isinstance(n.value, ast.Constant) and n.value.value is None):
                    pass
                continue
            if isinstance(n, ast.Raise):
                continue
            if isinstance(n, ast.Expr) and isinstance(n.value, ast.Constant):
                continue
            out.append(Site(n, 'pass', 'stmt:%s-removed' % type(n).__name__))
    # drop sites inside "if __name__" or version guards? keep everything.
    return out


def apply_site(src, site):
    n = site.node
    lines = src.splitlines(keepends=True)
    # byte offsets: col_offset is in utf-8 bytes; files are ascii-ish, handle generally
    def off(lineno, col):
        pre = ''.join(lines[:lineno - 1])
        line = lines[lineno - 1].encode('utf-8')
        return len(pre) + len(line[:col].decode('utf-8'))
    a = off(n.lineno, n.col_offset); b = off(n.end_lineno, n.end_col_offset)
    new = site.new_src
    if isinstance(n, ast.expr) and not new.startswith('('):
        new = '(' + new + ')'
    return src[:a] + new + src[b:]


def make_scratch():
    d = tempfile.mkdtemp(prefix='lena-ms-', dir='/tmp')
    r = os.path.join(d, 'repo'); os.makedirs(r)
    shutil.copytree(os.path.join(REPO, 'lena'), os.path.join(r, 'lena'), ignore=shutil.ignore_patterns('__pycache__'))
    shutil.copytree(os.path.join(REPO, 'tests'), os.path.join(r, 'tests'), ignore=shutil.ignore_patterns('__pycache__'))
    for f in ('pytest.ini', 'setup.cfg', 'tox.ini', 'conftest.py', 'setup.py', 'pyproject.toml'):
        if os.path.exists(os.path.join(REPO, f)):
            shutil.copy(os.path.join(REPO, f), r)
    if os.path.isdir(os.path.join(REPO, 'docs', 'examples')):
        os.makedirs(os.path.join(r, 'docs'))
        shutil.copytree(os.path.join(REPO, 'docs', 'examples'), os.path.join(r, 'docs', 'examples'))
    return d


def run_one(job):
    rel, idx, op, lineno, mutated, props, tier = job
    d = make_scratch()
    r = os.path.join(d, 'repo')
    rec = {'file': rel, 'site': idx, 'op': op, 'line': lineno}
    try:
        orig = open(os.path.join(REPO, rel)).read()
        rec['diff'] = ''.join(difflib.unified_diff(orig.splitlines(True), mutated.splitlines(True), 'a/' + rel, 'b/' + rel, n=2))
        try:
            compile(mutated, rel, 'exec')
        except SyntaxError as e:
            rec['suite'] = 'syntax-error'; return rec
        open(os.path.join(r, rel), 'w').write(mutated)
        env = dict(os.environ, PYTHONDONTWRITEBYTECODE='1', PYTHONHASHSEED='0')
        env.pop('PYTHONPATH', None)
        try:
            p = subprocess.run(['/venv/bin/python', '-m', 'pytest', '-q', '-x', '-p', 'no:cacheprovider'], cwd=r, env=env,
                               capture_output=True, text=True, timeout=300)
            ok = p.returncode == 0
            rec['suite'] = 'pass' if ok else 'fail'
        except subprocess.TimeoutExpired:
            rec['suite'] = 'timeout'; ok = False
        if not ok:
            return rec
        rec['checks'] = {}
        env = dict(os.environ, VERIF_REPO=r, VERIF_NO_EVIDENCE='1')
        for pid in props:
            t = time.time()
            try:
                p = subprocess.run([os.path.join(VERIF, 'check'), pid, tier], cwd=VERIF, env=env, capture_output=True, text=True, timeout=2400)
                why = ''
                for l in p.stdout.splitlines():
                    if 'violated' in l:
                        why = l[l.index('violated'):][:140]; break
                rec['checks'][pid] = {'exit': p.returncode, 'why': why, 's': round(time.time() - t)}
                if p.returncode == 2:
                    rec['checks'][pid]['tail'] = (p.stdout + p.stderr)[-600:]
                if p.returncode == 1:
                    break
            except subprocess.TimeoutExpired:
                rec['checks'][pid] = {'exit': 'timeout'}
        return rec
    finally:
        shutil.rmtree(d, ignore_errors=True)


def main():
    ap = argparse.ArgumentParser()
    ap.add_argument('--per-file', type=int, default=10)
    ap.add_argument('--seed', type=int, default=1)
    ap.add_argument('--jobs', type=int, default=8)
    ap.add_argument('--out', required=True)
    ap.add_argument('--files', default='')
    ap.add_argument('--tier', default='quick')
    ap.add_argument('--list', action='store_true')
    a = ap.parse_args()
    anc = anchors()
    files = a.files.split(',') if a.files else sorted(anc)
    rng = random.Random(a.seed)
    jobs = []
    for rel in files:
        src = open(os.path.join(REPO, rel)).read()
        ss = sites_of(src)
        idxs = list(range(len(ss)))
        rng.shuffle(idxs)
        take = idxs[:a.per_file]
        if a.list:
            print(rel, len(ss), anc.get(rel))
        for i in sorted(take):
            try:
                mutated = apply_site(src, ss[i])
            except Exception as e:
                continue
            if mutated == src:
                continue
            jobs.append((rel, i, ss[i].op, ss[i].node.lineno, mutated, anc.get(rel, []), a.tier))
    if a.list:
        print(len(jobs), 'jobs'); return
    os.makedirs(os.path.dirname(os.path.abspath(a.out)), exist_ok=True)
    surv = a.out + '.survivors'; os.makedirs(surv, exist_ok=True)
    n = {'suite-killed': 0, 'check-killed': 0, 'survived': 0, 'error': 0}
    with open(a.out, 'a') as fo, ProcessPoolExecutor(a.jobs) as ex:
        futs = [ex.submit(run_one, j) for j in jobs]
        for f in as_completed(futs):
            rec = f.result()
            if rec.get('suite') != 'pass':
                n['suite-killed'] += 1; rec['outcome'] = 'suite-killed'
            else:
                exits = [c['exit'] for c in rec['checks'].values()]
                if 1 in exits:
                    n['check-killed'] += 1; rec['outcome'] = 'check-killed'
                elif any(e not in (0, 1) for e in exits):
                    n['error'] += 1; rec['outcome'] = 'error'
                else:
                    n['survived'] += 1; rec['outcome'] = 'survived'
                if rec['outcome'] != 'check-killed':
                    name = '%s-%d' % (rec['file'].replace('/', '_').replace('.py', ''), rec['site'])
                    open(os.path.join(surv, name + '.patch'), 'w').write(rec['diff'])
            fo.write(json.dumps(rec) + '\n'); fo.flush()
            print(rec['outcome'], rec['file'], rec['line'], rec['op'], {k: v['exit'] for k, v in rec.get('checks', {}).items()}, flush=True)
    print(n)


if __name__ == '__main__':
    main()

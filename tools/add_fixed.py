"""python tools/add_fixed.py <property> <commit> <replay-or-empty> '<what failed>'"""
import json, sys, os
HERE = os.path.dirname(os.path.dirname(os.path.abspath(__file__)))
prop, commit, replay, what = sys.argv[1:5]
p = os.path.join(HERE, "known_findings.json")
d = json.load(open(p))
d["fixed"].append({"property": prop, "commit": commit, "replay": replay,
                   "line": "fixed: property=%s %s %s" % (prop, commit, what)})
json.dump(d, open(p, "w"), indent=1)
print(len(d["fixed"]), "fixed entries")

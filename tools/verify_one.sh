#!/bin/sh
# usage: vb.sh <name> -> one summary line
d=/tmp/seeded-out/$1; n=$1; id=${n%%-*}
out=$(timeout 2400 /verif/tools/verify_seeded.sh "$d" "$id" 2>&1)
echo "$n | $(echo "$out" | grep -c 'demo clean exit=0')$(echo "$out" | grep -c 'demo patched exit=1')$(echo "$out" | grep -c '153 passed') | $(echo "$out" | grep "$id quick" | head -1)"

claim("C17",
      "exhaustive enumeration of the index box + Hypothesis beyond it, oracle = Python list slicing / itertools",
      "Complete enumeration of start,stop in {None,-7..7} x step in {None,1..4} x flow length 0..10 for Slice.run (three constructor forms, bare and inside Sequence) and of the non-negative box for fill_into, each compared with xs[start:stop:step]; rejected steps; RunningChunkBy box; Hypothesis samples outside the box (|index|<=40, len<=60) and for Reverse/Chain/CountFrom. Inside the box the result is certain; outside it is sampled.",
      "Python's list slicing, reversed, itertools.chain/count are the trusted reference; flows are lists of ints.")

"""python tools/keep_seeded.py <srcdir> <property> <needs> <result-lines>
Copies patch.diff, demo.py, notes.md into /verif/seeded/<name>/ and writes meta.json."""
import sys, os, json, shutil, subprocess
src, prop, needs, result = sys.argv[1:5]
name = os.path.basename(src.rstrip('/'))
dst = os.path.join('/verif/seeded', name)
os.makedirs(dst, exist_ok=True)
for f in ('patch.diff', 'demo.py', 'notes.md'):
    if os.path.exists(os.path.join(src, f)):
        shutil.copy(os.path.join(src, f), dst)
head = subprocess.check_output(['git', '-C', '/repo', 'rev-parse', '--short', 'HEAD']).decode().strip()
meta = {
    "breaks_property": prop,
    "needs_to_manifest": needs,
    "origin": "independent sub-agent given only the property text and a scratch worktree",
    "confirmed": {
        "repo_head": head,
        "how": "tools/verify_seeded.sh: scratch worktree of /repo HEAD; demo exits 0 on clean tree; patch applied with git apply; pytest -q -x passes (153); demo exits 1 with the patch; then ./check with VERIF_REPO pointing at the patched worktree",
        "check_results": result,
    },
}
json.dump(meta, open(os.path.join(dst, 'meta.json'), 'w'), indent=1)
print("kept", dst)

#!/bin/sh
# usage: tools/verify_seeded.sh <dir with patch.diff demo.py> <ID>[,ID..] [tier]
# Confirms a seeded change in a scratch worktree of /repo HEAD (tests pass,
# demo fails with / passes without), then runs the given checks against it.
S=$(realpath "$1"); IDS=$2; TIER=${3:-quick}
W=$(mktemp -d /tmp/vs-XXXXXX); rmdir "$W"
git -C /repo worktree add -q --detach "$W" HEAD || exit 3
cd "$W"
PYTHONPATH="$W" /venv/bin/python "$S/demo.py" >/dev/null 2>&1; echo "demo clean exit=$?"
if ! git apply "$S/patch.diff"; then echo "PATCH DOES NOT APPLY"; cd /; git -C /repo worktree remove --force "$W"; exit 3; fi
/venv/bin/python -m pytest -q -p no:cacheprovider -x 2>&1 | tail -1
PYTHONPATH="$W" /venv/bin/python "$S/demo.py" >/dev/null 2>&1; echo "demo patched exit=$?"
cd /verif
for ID in $(echo "$IDS" | tr ',' ' '); do
  VERIF_REPO="$W" VERIF_NO_EVIDENCE=1 ./check "$ID" "$TIER" > /tmp/vs-out.$$ 2>&1
  c=$?
  echo "$ID $TIER exit=$c $(grep -m1 -o 'violated.*' /tmp/vs-out.$$)"
  [ "$c" = 2 ] && tail -20 /tmp/vs-out.$$
done
rm -f /tmp/vs-out.$$
git -C /repo worktree remove --force "$W"

"""Coverage-guided tier of a Hypothesis check (parent side of harness/fuzz_hyp.py).

cases(modname, checkname, quick, thorough, procs) returns the `cases` function
of an enumeration Check: it runs `procs` atheris/libFuzzer processes (seeds
derived from VERIF_SEED) over the strategy of check `checkname`, each with
the oracle inside the target, and yields

  * the case of every violation a fuzzer process found (re-judged in-process,
    without atheris or Hypothesis: that is the replay), and
  * a bounded sample of the non-trivial cases the processes generated
    (re-judged as well, so the evidence counts describe real evaluations);
    the number of executions of the fuzzer itself is reported in the class
    histogram as `fuzzer-executions/1000`.
"""
import json
import os
import re
import shutil
import subprocess
import sys
import tempfile

from .core import REPO, VERIF, HarnessError


def cases(modname, checkname, quick=3000, thorough=100000, procs_quick=2, procs_thorough=8, max_len=4096):
    def gen(tier):
        try:
            import atheris  # noqa
        except ImportError:
            return
        runs = quick if tier != "thorough" else thorough
        procs = procs_quick if tier != "thorough" else procs_thorough
        scale = float(os.environ.get("VERIF_SCALE", "1") or "1")
        runs = max(200, int(runs * scale))
        seed = int(os.environ.get("VERIF_SEED", "1") or "1") or 1
        known = json.dumps(sorted(_known(modname)))
        d = tempfile.mkdtemp(prefix="lena-covfuzz-")
        try:
            ps = []
            for i in range(procs):
                out = os.path.join(d, "p%d" % i)
                os.makedirs(os.path.join(out, "corpus"))
                os.makedirs(os.path.join(out, "art"))
                # starting corpus: the empty input plus byte strings of several lengths, a pure function of the
                # seed (strategies that draw a lot before reaching lena are never reached from one byte)
                import random
                rnd = random.Random(seed * 1000 + i + 1)
                for j, ln in enumerate((0, 16, 64, 128, 256, 512, 1024, 2048)):
                    with open(os.path.join(out, "corpus", "s%d" % j), "wb") as f:
                        f.write(bytes(rnd.getrandbits(8) if rnd.random() < 0.7 else 0 for _ in range(ln)))
                env = dict(os.environ)
                env["VERIF_REPO"] = REPO
                target = os.path.join(VERIF, "harness", "fuzz_hyp.py")
                log = open(os.path.join(out, "log"), "wb")
                ps.append((out, log, subprocess.Popen(
                    [sys.executable, "-W", "ignore", target, modname, checkname, tier, out, known,
                     "-runs=%d" % (runs // procs), "-seed=%d" % (seed * 1000 + i + 1), "-max_len=%d" % max_len,
                     "-len_control=0", "-print_final_stats=0", "-verbosity=0", "-rss_limit_mb=4096"],
                    stdout=log, stderr=subprocess.STDOUT, env=env, cwd=out)))
            execs = 0
            for out, log, p in ps:
                try:
                    p.wait(timeout=7200)
                except subprocess.TimeoutExpired:
                    p.kill()
                    raise HarnessError("fuzzer process did not finish")
                log.close()
                vio = os.path.join(out, "violation.json")
                try:
                    with open(os.path.join(out, "stats.json")) as f:
                        execs += json.load(f)["evals"]
                except (OSError, ValueError):
                    pass
                if os.path.exists(vio):
                    with open(vio) as f:
                        yield json.load(f)["case"]
                    continue
                if p.returncode != 0:
                    with open(os.path.join(out, "log"), "rb") as f:
                        tail = f.read()[-3000:].decode("latin-1")
                    raise HarnessError("fuzzer process failed without a violation (exit %s): %s" % (p.returncode, tail))
                cj = os.path.join(out, "cases.jsonl")
                if os.path.exists(cj):
                    with open(cj) as f:
                        for line in f:
                            yield json.loads(line)
            yield {"__fuzzer_executions__": execs}
        finally:
            shutil.rmtree(d, ignore_errors=True)
    return gen


def check(checks, modname, checkname, **kw):
    """the coverage-guided companion of check `checkname` of `checks`"""
    from .core import Check
    base = [c for c in checks if c.name == checkname][0]

    def judge(case):
        if isinstance(case, dict) and "__fuzzer_executions__" in case:
            return {"classes": ["fuzzer-executions:%d" % case["__fuzzer_executions__"]]}
        return base.judge(case)
    q, t = kw.get("quick", 3000), kw.get("thorough", 100000)
    return Check("cov_" + checkname, judge, cases=cases(modname, checkname, **kw), shards=1,
                 rule="coverage-guided exploration of the generator of [%s]: atheris / libFuzzer (%d executions quick, %d thorough, seeds and a starting corpus of eight byte strings of length 0-2048 derived from VERIF_SEED) "
                      "mutates the byte string that Hypothesis' fuzz_one_input decodes into the choices of that check's strategy, lena being imported under coverage instrumentation, "
                      "with the same judge inside the target. Counted here: the violating case if any and a bounded sample of the non-trivial cases, re-judged in-process without the fuzzer; "
                      "the class fuzzer-executions:N gives the number of cases the fuzzer processes judged." % (checkname, q, t))


def _known(modname):
    prop = modname.rsplit(".", 1)[1].upper()
    try:
        with open(os.path.join(VERIF, "known_findings.json")) as f:
            kf = json.load(f)
    except OSError:
        return []
    return [k["signature"] for k in kf.get("known", []) if k.get("property") == prop]

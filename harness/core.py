"""Shared machinery: repo path, cases, violations, recorders, evidence.

Every property module (harness/props/cNN.py) exposes

    PROPERTY = "CNN"
    CHECKS   = [Check(...), ...]

A Check couples a generator (a Hypothesis strategy producing a JSON-able
*case*, or a finite enumeration of cases) with a *judge*: a pure function of
the case that builds fresh lena objects, runs them, compares with the oracle
and either returns classification info or raises Violation(signature, detail).
The judge is what a replay file re-runs, with no Hypothesis involved.
"""
import os
import sys

REPO = os.path.abspath(os.environ.get("VERIF_REPO", "/repo"))
VERIF = os.path.dirname(os.path.dirname(os.path.abspath(__file__)))
if sys.path[0] != REPO:
    sys.path.insert(0, REPO)
os.environ.setdefault("YNIKITENKO_LENA_VERIF", "1")

import collections
import hashlib
import json
import time
import traceback
import warnings

warnings.simplefilter("ignore")

LENA_DIR = os.path.join(REPO, "lena") + os.sep
HARNESS_DIR = os.path.join(VERIF, "harness") + os.sep


class Violation(Exception):
    """The property does not hold for the current case."""

    def __init__(self, sig, detail=""):
        super().__init__("%s: %s" % (sig, detail))
        self.sig = sig
        self.detail = detail


class HarnessError(Exception):
    """The harness itself is broken; never reported as a violation."""


class Check(object):
    def __init__(self, name, judge, strategy=None, cases=None, quick=500,
                 thorough=20000, rule="", exhaustive=False, shards=None):
        self.name = name
        self.judge = judge
        self.strategy = strategy      # tier -> hypothesis strategy
        self.cases = cases            # tier -> iterable of cases
        self.quick = quick
        self.thorough = thorough
        self.rule = rule
        self.exhaustive = exhaustive
        self.shards = shards          # override the number of shards


def canon(case):
    return json.dumps(case, sort_keys=True, default=repr)


def case_hash(case):
    return int.from_bytes(
        hashlib.blake2b(canon(case).encode(), digest_size=8).digest(), "big")


def derive_seed(seed, *parts):
    h = hashlib.blake2b(("%d|%s" % (seed, "|".join(map(str, parts)))).encode(),
                        digest_size=6).digest()
    return int.from_bytes(h, "big")


def innermost_frame_file(exc):
    tb = traceback.extract_tb(exc.__traceback__)
    return tb[-1] if tb else None


def lena_frame(exc):
    """The innermost frame of exc that lies in the code under test, if the
    exception was raised *inside* it (innermost frame overall is lena or
    library code called by lena and not harness code)."""
    tb = traceback.extract_tb(exc.__traceback__)
    if not tb:
        return None
    # innermost harness frame index / innermost lena frame index
    last_lena = last_har = -1
    for i, fr in enumerate(tb):
        fn = os.path.abspath(fr.filename)
        if fn.startswith(LENA_DIR):
            last_lena = i
        elif fn.startswith(HARNESS_DIR):
            last_har = i
    if last_lena > last_har:
        return tb[last_lena]
    return None


def callback_frame(exc):
    """If exc was raised in harness code that lena was calling at that moment (an element
    function, predicate or accumulator of the harness invoked from lena code), return the
    innermost lena frame: lena handed the callback something it cannot be handed on the
    unchanged tree (there the callbacks are total on everything they receive)."""
    tb = traceback.extract_tb(exc.__traceback__)
    first_lena = None
    for i, fr in enumerate(tb):
        fn = os.path.abspath(fr.filename)
        if fn.startswith(LENA_DIR):
            first_lena = i
    if first_lena is None:
        return None
    inner = os.path.abspath(tb[-1].filename)
    if inner.startswith(HARNESS_DIR) and first_lena < len(tb) - 1:
        return tb[first_lena]
    return None


def short(obj, n=300):
    s = repr(obj)
    return s if len(s) <= n else s[:n] + "..."


def exc_sig(exc):
    """Signature for an unexpected exception raised inside lena."""
    fr = lena_frame(exc)
    where = ""
    if fr is not None:
        where = "%s:%s" % (os.path.relpath(fr.filename, REPO), fr.name)
    return "unexpected-exception:%s:%s" % (type(exc).__name__, where)


class Recorder(object):
    """Counts what one shard of one check actually explored."""

    def __init__(self, prop, check, tier, seed, known):
        self.prop = prop
        self.check = check
        self.tier = tier
        self.seed = seed
        self.known = known            # set of known signatures
        self.evals = 0
        self.nontrivial = set()
        self.classes = collections.Counter()
        self.samples = []
        self.known_hits = collections.Counter()
        self.violation = None         # dict
        self.replay_dir = os.path.join(VERIF, "out", "replays")

    def _sample(self, case):
        n = len(self.nontrivial)
        if n in (1, 2, 3, 30, 300, 3000, 30000) and len(self.samples) < 7:
            self.samples.append(case)

    def judge_once(self, case):
        """Run the judge; turn unexpected lena exceptions into Violations."""
        try:
            return self.check.judge(case)
        except (Violation, HarnessError):
            raise
        except (KeyboardInterrupt, SystemExit, MemoryError):
            raise
        except BaseException as e:   # noqa
            if lena_frame(e) is not None:
                raise Violation(
                    exc_sig(e), "%s: %s" % (type(e).__name__, short(str(e)))
                ).with_traceback(e.__traceback__)
            cb = callback_frame(e)
            if cb is not None and not isinstance(e, AssertionError):
                raise Violation(
                    "harness-callback-fails-on-what-lena-passes:%s:%s:%s" % (
                        type(e).__name__, os.path.relpath(cb.filename, REPO), cb.name),
                    "%s: %s" % (type(e).__name__, short(str(e)))
                ).with_traceback(e.__traceback__)
            raise

    def run_case(self, case):
        self.evals += 1
        # what the judge sees is exactly what a replay file would contain
        # (this also removes any aliasing between parts of a generated case)
        case = json.loads(json.dumps(case))
        try:
            info = self.judge_once(case)
        except Violation as v:
            if v.sig in self.known:
                self.known_hits[v.sig] += 1
                self.classes["known-finding-excluded"] += 1
                return
            path = self.write_replay(case, v)
            self.violation = {"sig": v.sig, "detail": v.detail, "replay": path,
                              "check": self.check.name}
            raise
        if info is None:
            info = {}
        for c in info.get("classes", ()):
            self.classes[c] += 1
        if info.get("nontrivial", False):
            h = case_hash(case)
            if h not in self.nontrivial:
                self.nontrivial.add(h)
                self._sample(case)

    def write_replay(self, case, v):
        os.makedirs(self.replay_dir, exist_ok=True)
        sh = hashlib.blake2b(v.sig.encode(), digest_size=4).hexdigest()
        path = os.path.join(self.replay_dir, "%s-%s-%s.json" % (
            self.prop, self.check.name, sh))
        with open(path, "w") as f:
            json.dump({"property": self.prop, "check": self.check.name,
                       "signature": v.sig, "detail": v.detail,
                       "tier": self.tier, "seed": self.seed, "case": case},
                      f, indent=1, sort_keys=True, default=repr)
        return path

    def result(self):
        return {"check": self.check.name, "evals": self.evals,
                "nontrivial": self.nontrivial, "classes": self.classes,
                "samples": self.samples, "known_hits": self.known_hits,
                "violation": self.violation}


def run_hypothesis(rec, n, seed, tier):
    import hypothesis
    from hypothesis import given, settings, HealthCheck, Phase
    strat = rec.check.strategy(tier)

    @hypothesis.seed(seed)
    @settings(max_examples=n, database=None, deadline=None,
              derandomize=False, report_multiple_bugs=False,
              suppress_health_check=[HealthCheck.too_slow,
                                     HealthCheck.data_too_large,
                                     HealthCheck.filter_too_much,
                                     HealthCheck.large_base_example],
              phases=[Phase.generate, Phase.shrink])
    @given(strat)
    def test(case):
        rec.run_case(case)

    try:
        test()
    except Violation:
        pass
    except BaseException:   # noqa
        # Hypothesis reports a failure that did not repeat on replay as
        # FlakyFailure (an exception group). The violation did happen, with
        # the recorded case (e.g. it depends on when a subprocess finishes):
        # it is reported, with the replay file written when it was seen.
        if rec.violation is None:
            raise
        rec.violation["detail"] = "(not reproduced on immediate replay: timing-dependent) " + rec.violation["detail"]


def run_enumeration(rec, tier, shard, nshards):
    import itertools
    it = rec.check.cases(tier)
    for case in itertools.islice(it, shard, None, nshards):
        try:
            rec.run_case(case)
        except Violation:
            return


def run_shard(args):
    """Entry point of a worker: one shard of one check."""
    modname, checkname, tier, seed, shard, nshards, n, known = args
    import importlib
    try:
        # a runaway allocation becomes MemoryError (harness error, exit 2)
        # in this worker instead of an OOM kill of something else
        import resource
        lim = int(os.environ.get("VERIF_MEM_GB", "6")) * 1024 ** 3
        resource.setrlimit(resource.RLIMIT_AS, (lim, lim))
    except Exception:   # noqa
        pass
    mod = importlib.import_module(modname)
    check = [c for c in mod.CHECKS if c.name == checkname][0]
    rec = Recorder(mod.PROPERTY, check, tier, seed, set(known))
    t0 = time.time()
    try:
        if check.strategy is not None:
            run_hypothesis(rec, n, derive_seed(seed, mod.PROPERTY, checkname,
                                               shard), tier)
        else:
            run_enumeration(rec, tier, shard, nshards)
    except BaseException as e:   # harness error
        res = rec.result()
        res["harness_error"] = "".join(
            traceback.format_exception(type(e), e, e.__traceback__))[-4000:]
        res["wall"] = time.time() - t0
        return res
    res = rec.result()
    res["wall"] = time.time() - t0
    return res


def replay_case(mod, checkname, case, known=()):
    """Re-judge one stored case. Returns None or a Violation."""
    check = [c for c in mod.CHECKS if c.name == checkname]
    if not check:
        raise HarnessError("unknown check %r" % checkname)
    rec = Recorder(mod.PROPERTY, check[0], "replay", 0, set())
    try:
        rec.judge_once(case)
    except Violation as v:
        return v
    return None

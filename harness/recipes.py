"""JSON-able element recipes -> fresh lena objects, plus the manual
"stream transformation" of each element (used as reference fold)."""
import copy
import io
import itertools

from hypothesis import strategies as st

import lena.core
import lena.flow
import lena.math
from lena.core import Sequence, Source, Split, FillCompute
from lena.flow import (Filter, Slice, Count, RunIf, Reverse, End, Print,
                       StoreFilled)
from lena.math import Sum, Mean, DSum
from lena.variables import Variable


def split_val(v):
    if isinstance(v, tuple) and len(v) == 2 and isinstance(v[1], dict):
        return v[0], v[1]
    return v, None


def with_data(v, f):
    d, c = split_val(v)
    return f(d) if c is None else (f(d), c)


def _num(d):
    return isinstance(d, (int, float)) and not isinstance(d, bool)


# total functions on values (bare or (data, context))
def f_add1(v):
    return with_data(v, lambda d: d + 1 if _num(d) else d)


def f_dbl(v):
    return with_data(v, lambda d: d * 2 if _num(d) else d)


def f_neg(v):
    return with_data(v, lambda d: -d if _num(d) else d)


def f_wrap(v):
    return with_data(v, lambda d: ("w", d))


def f_unctx(v):
    return split_val(v)[0]


def f_ctx_k(v):
    """pure: returns a new pair with a copied, extended context"""
    d, c = split_val(v)
    c = copy.deepcopy(c) if c is not None else {}
    c["k"] = c.get("k", 0) + 1
    return (d, c)


def f_ctx_mut(v):
    """in-place mutation of the context (if there is one)"""
    d, c = split_val(v)
    if c is None:
        return (d, {"m": 1})
    c["m"] = c.get("m", 0) + 1
    return (d, c)


FUNCS = {"add1": f_add1, "dbl": f_dbl, "neg": f_neg, "wrap": f_wrap,
         "unctx": f_unctx, "ctx_k": f_ctx_k, "ctx_mut": f_ctx_mut}

# getters for Variables (on data)
GETTERS = {"add1": lambda d: d + 1 if _num(d) else d,
           "dbl": lambda d: d * 2 if _num(d) else d,
           "id": lambda d: d}


def p_even(v):
    d = split_val(v)[0]
    return _num(d) and d % 2 == 0


def p_pos(v):
    d = split_val(v)[0]
    return _num(d) and d > 0


def p_none(v):
    return False


def p_all(v):
    return True


def p_has_ctx(v):
    return split_val(v)[1] is not None


def p_mod3(v):
    """answers with a number, not a bool (truthy for d % 3 != 0)"""
    d = split_val(v)[0]
    return d % 3 if _num(d) else 0


def p_datum(v):
    """answers with the datum itself (truthy / falsy object)"""
    return split_val(v)[0]


def p_raises_odd(v):
    """raises for odd numbers (used inside Selector(..., raise_on_error=False): an error counts as not selected)"""
    d = split_val(v)[0]
    if _num(d) and d % 2:
        raise ValueError("odd")
    return True


def p_raises_ctx(v):
    """raises KeyError for values without context"""
    return split_val(v)[1]["a"] is not None if split_val(v)[1] is not None else {}["a"]


RAISING_PREDS = {"raises_odd": p_raises_odd, "raises_ctx": p_raises_ctx}

PREDS = {"even": p_even, "pos": p_pos, "none": p_none, "all": p_all,
         "has_ctx": p_has_ctx, "mod3": p_mod3, "datum": p_datum}


class UserAcc(object):
    """user accumulator yielding nres results"""

    def __init__(self, tag, nres):
        self.tag, self.nres, self.vals = tag, nres, []

    def fill(self, v):
        self.vals.append(v)

    def compute(self):
        for i in range(self.nres):
            yield (self.tag, i, [split_val(v)[0] for v in self.vals])


class CallFC(object):
    """callable that also has fill and compute (no run): in a Sequence it is a
    transformation of values (Run's documented order: run, then call, then fill/compute)"""

    def __init__(self):
        self.vals = []

    def __call__(self, v):
        return with_data(v, lambda d: ("cf", d))

    def fill(self, v):
        self.vals.append(v)

    def compute(self):
        yield ("computed", len(self.vals))


class NumSum(object):
    """Sum that ignores non-numbers (keeps generated chains total)"""

    def __init__(self):
        self.el = Sum()
        self.n = 0

    def fill(self, v):
        d, c = split_val(v)
        if _num(d):
            self.el.fill(v)

    def compute(self):
        return self.el.compute()


ACCS = ("sum", "fc_count", "store", "store1", "mean", "dsum", "uacc0", "uacc1", "uacc2")


def build(r):
    """recipe -> fresh lena object (or plain callable)"""
    k = r[0]
    if k == "map":
        return FUNCS[r[1]]
    if k == "var":
        return Variable(r[1], GETTERS[r[2]], type=r[3])
    if k == "varattr":
        return Variable(r[1], GETTERS[r[2]], type=r[3], run=2015, fill="no", compute=0, request=None, fill_into=1)
    if k == "filter":
        return Filter(PREDS[r[1]])
    if k == "filter_roe":
        # a ready Selector that counts an error of its predicate as "not selected"
        from lena.flow import Selector
        return Filter(Selector(RAISING_PREDS[r[1]], raise_on_error=False))
    if k == "slice":
        return Slice(*r[1:])
    if k == "count":
        return Count(r[1])
    if k == "frgroups":
        # the FillRequest adapter used as a run element (it has fill and request besides run): groups of n values
        from lena.core import FillRequest
        return FillRequest(StoreFilled(), bufsize=r[1], reset=True, buffer_input=True)
    if k == "runif":
        return RunIf(PREDS[r[1]], *[build(x) for x in r[2]])
    if k == "reverse":
        return Reverse()
    if k == "end":
        return End()
    if k == "print":
        return Print(before=r[1], transform=lambda v: "p", end="")
    if k == "callfc":
        return CallFC()
    if k == "sum":
        return NumSum()
    if k == "fc_count":
        return FillCompute(Count())
    if k == "store":
        return StoreFilled()
    if k == "store1":
        return StoreFilled(yield_as_a_group=False)
    if k == "mean":
        return _NumMean()
    if k == "dsum":
        return _NumDSum()
    if k.startswith("uacc"):
        return UserAcc("u", int(k[4:]))
    if k == "seq":
        return Sequence(*[build(x) for x in r[1]])
    if k == "split":
        return Split([build_branch(b) for b in r[1]], **r[2])
    raise AssertionError(r)


class _NumMean(object):
    def __init__(self):
        self.el = Mean(pass_on_empty=True)

    def fill(self, v):
        if _num(split_val(v)[0]):
            self.el.fill(v)

    def compute(self):
        return self.el.compute()


class _NumDSum(object):
    def __init__(self):
        self.el = DSum()

    def fill(self, v):
        if _num(split_val(v)[0]):
            self.el.fill(v)

    def compute(self):
        return self.el.compute()


def build_branch(b):
    """a Split branch: a list of recipes -> tuple of elements (or a bare
    element for a one-element list marked bare)"""
    if b and b[0] == "bare":
        return build(b[1])
    return tuple(build(x) for x in b)


def kind(r):
    k = r[0]
    if k in ("map", "var", "varattr", "print", "callfc"):
        return "call"
    if k in ACCS:
        return "acc"
    if k == "seq":
        return "seq"
    return "run"


def manual(r, flow):
    """The element's own stream transformation applied to *flow* without
    Sequence / adapters.Run: el.run for run elements, map for callables,
    fill-everything-then-compute for accumulators; nested sequences are
    folded element by element."""
    kd = kind(r)
    if kd == "seq":
        for x in r[1]:
            flow = manual(x, flow)
        return flow
    el = build(r)
    if kd == "call":
        return map(el, flow)
    if kd == "acc":
        def gen():
            for v in flow:
                el.fill(v)
            for res in el.compute():
                yield res
        return gen()
    return el.run(flow)


def flat(recipes):
    out = []
    for r in recipes:
        if r[0] == "seq":
            out.extend(flat(r[1]))
        else:
            out.append(r)
    return out


# ---- strategies -------------------------------------------------------------

def el_recipes(depth=2, with_split=True, streaming_only=False):
    base = [
        st.builds(lambda f: ["map", f], st.sampled_from(sorted(FUNCS))),
        st.builds(lambda n, g, t: ["var", n, g, t], st.sampled_from(["v1", "v2"]),
                  st.sampled_from(sorted(GETTERS)), st.sampled_from(["", "ta", "tb"])),
        st.builds(lambda p: ["filter", p], st.sampled_from(sorted(PREDS))),
        st.builds(lambda a: ["slice"] + a, slice_args()),
        st.builds(lambda n: ["count", n], st.sampled_from(["count", "n2"])),
    ]
    if not streaming_only:
        base.append(st.just(["callfc"]))
        base += [
            st.just(["reverse"]), st.just(["end"]),
            st.builds(lambda a: [a], st.sampled_from(ACCS)),
            st.builds(lambda a: [a], st.sampled_from(ACCS)),
        ]
    base.append(st.just(["print", "b"]))
    if depth <= 0:
        return st.one_of(*base)
    sub = el_recipes(depth - 1, with_split, streaming_only)
    rec = [
        st.builds(lambda p, xs: ["runif", p, xs], st.sampled_from(sorted(PREDS)),
                  st.lists(el_recipes(0, False, True), min_size=0, max_size=2)),
    ]
    if not streaming_only:
        rec.append(st.builds(lambda xs: ["seq", xs], st.lists(sub, max_size=3)))
    if with_split and not streaming_only:
        rec.append(st.builds(
            lambda bs, buf: ["split", bs, {"bufsize": buf}],
            st.lists(branch_recipe(), max_size=2),
            st.sampled_from([1, 2, 3, 1000, None])))
    return st.one_of(*(base + rec))


def fillable_recipes():
    """elements that can precede an accumulator in a fill sequence"""
    return st.one_of(
        st.builds(lambda f: ["map", f], st.sampled_from(sorted(FUNCS))),
        st.builds(lambda n, g, t: ["var", n, g, t], st.sampled_from(["v1", "v2"]),
                  st.sampled_from(sorted(GETTERS)), st.sampled_from(["", "ta", "tb"])),
        st.builds(lambda p: ["filter", p], st.sampled_from(sorted(PREDS))),
        st.builds(lambda p: ["filter_roe", p], st.sampled_from(sorted(RAISING_PREDS))),
        st.builds(lambda a: ["slice"] + a, nonneg_slice_args()),
        st.builds(lambda p, xs: ["runif", p, xs], st.sampled_from(sorted(PREDS)),
                  st.lists(st.builds(lambda f: ["map", f], st.sampled_from(sorted(FUNCS))),
                           max_size=2)),
        # RunIf around elements that depend on their flow: every selected value is a flow of its own
        st.builds(lambda p, xs: ["runif", p, xs], st.sampled_from(["all", "all", "pos", "has_ctx", "datum"]),
                  st.lists(st.one_of(st.builds(lambda f: ["map", f], st.sampled_from(sorted(FUNCS))),
                                     st.builds(lambda a: ["slice", a], st.integers(0, 2)),
                                     st.builds(lambda a, b: ["slice", a, b], st.integers(0, 1), st.integers(0, 2)),
                                     st.builds(lambda p: ["filter", p], st.sampled_from(sorted(PREDS)))),
                           min_size=1, max_size=2)),
        # a Variable that carries attributes named like methods (keyword arguments become attributes)
        st.builds(lambda n, g, t: ["varattr", n, g, t], st.sampled_from(["v1", "v2"]),
                  st.sampled_from(sorted(GETTERS)), st.sampled_from(["", "ta"])),
    )


def post_recipes():
    return st.one_of(
        st.builds(lambda f: ["map", f], st.sampled_from(sorted(FUNCS))),
        st.builds(lambda p: ["filter", p], st.sampled_from(sorted(PREDS))),
        st.builds(lambda a: ["slice"] + a, slice_args()),
        st.just(["reverse"]),
        st.builds(lambda n: ["frgroups", n], st.integers(1, 3)),
    )


def branch_recipe():
    """a valid Split branch: pre* acc post*  or a plain per-block sequence"""
    fc = st.builds(lambda pre, acc, post: pre + [[acc]] + post,
                   st.lists(fillable_recipes(), max_size=2),
                   st.sampled_from(ACCS), st.lists(post_recipes(), max_size=2))
    # (no element with fill and request in a plain branch: a tuple holding one is a fill/request branch, whose other
    #  elements must be convertible to FillInto - documented: "check seq's methods")
    plain = st.lists(st.one_of(fillable_recipes(), post_recipes().filter(lambda r: r[0] != "frgroups")), min_size=1, max_size=3)
    return st.one_of(fc, plain)


def nonneg_slice_args():
    idx = st.one_of(st.none(), st.integers(0, 5))
    return st.one_of(
        st.builds(lambda a: [a], st.integers(0, 6)),
        st.builds(lambda a, b: [a, b], idx, idx),
        st.builds(lambda a, b, c: [a, b, c], idx, idx, st.integers(1, 3)),
    )


def slice_args():
    idx = st.one_of(st.none(), st.integers(-3, 5))
    return st.one_of(
        st.builds(lambda a: [a], st.integers(-3, 6)),
        st.builds(lambda a, b: [a, b], idx, idx),
        st.builds(lambda a, b, c: [a, b, c], idx, idx, st.integers(1, 3)),
    )


# (None and false data: an element must not mistake a value for "no value")
odd_data = st.sampled_from([None, "", False, 0, [], "s"])
flow_values = st.one_of(
    st.integers(-5, 9), st.integers(-5, 9), st.integers(-5, 9),
    st.builds(lambda d, c: ["p", d, c], st.integers(-5, 9),
              st.dictionaries(st.sampled_from(["a", "b"]), st.integers(0, 3), max_size=2)),
    st.builds(lambda d, c: ["p", d, c], st.integers(-5, 9),
              st.dictionaries(st.sampled_from(["a", "b"]), st.integers(0, 3), max_size=2)),
    odd_data,
    st.builds(lambda d, c: ["p", d, c], odd_data,
              st.dictionaries(st.sampled_from(["a", "b"]), st.sampled_from([0, None, 1]), max_size=2)),
)


def flows(max_size=8):
    return st.lists(flow_values, max_size=max_size)


def mkflow(js):
    """decode the JSON form of a flow into fresh values"""
    out = []
    for v in js:
        if isinstance(v, list) and v and v[0] == "p":
            out.append((copy.deepcopy(v[1]), copy.deepcopy(v[2])))
        else:
            out.append(copy.deepcopy(v))
    return out


def drain(it):
    """list(it) but keeping the results obtained before an exception:
    returns ('ok', results) or ('exc', type name, results)"""
    res = []
    try:
        for v in it:
            res.append(v)
    except Exception as e:   # noqa
        return ("exc", type(e).__name__, res)
    return ("ok", res)

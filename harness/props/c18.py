"""C18 - Cache replays exactly the stored flow and never serves a truncated one."""
import copy
import gc
import itertools
import os
import pickle
import sys

from harness.core import Check, Violation, short
from harness import instr
from hypothesis import strategies as st

import lena.core
import lena.flow
from lena.core import Sequence, Source, Split
from lena.flow import Cache, Filter
from lena.meta.elements import SetContext

PROPERTY = "C18"
LEVEL = "exploration"
RULE = ("histories of runs (complete, consumer stops after k values, an element or the source raises at its k-th value, recompute, drop_cache) "
        "over pipelines with one or two Cache elements in a sandbox directory, every run with a fresh version tag in its upstream values; "
        "oracle: a model of possible cache states (sets of worlds) simulated with lazily chained generators - outputs, completion, "
        "and zero pulls / zero element calls upstream of a replaying cache.")
ASSUMPTIONS = [
    "values are picklable tuples (bare or with a context dictionary); stages are 1:1 maps and filters from a fixed registry",
    "after an interrupted fill both 'keep the previous complete cache' and 'keep nothing' are accepted, and so is a cache holding all "
    "values of the flow when the consumer stopped exactly at its end; a strict prefix is never accepted",
    "Split is used with a single block (bufsize=None or larger than the flow) and a single tuple branch; it reads its buffer before the "
    "branch runs, so upstream pulls are not judged there (element calls inside the branch are)",
    "dropping a missing cache may raise OSError (the code re-raises it); no concurrent writers; default pickle method",
]


class Boom(Exception):
    """fault injected by the harness"""


class BoomBase(BaseException):
    """a fault that is not an Exception (like KeyboardInterrupt or SystemExit)"""


_RAISE = [Boom]
BOOMS = (Boom, BoomBase)
FRAGILE = {"fail_at": None}


class UnpickleFails(Exception):
    """(model only) a stored value can no longer be loaded"""


class Fragile(object):
    """a value that pickles fine but whose unpickling fails when FRAGILE['fail_at'] names it
    (as when the class has disappeared from the program that reads the cache)"""

    def __init__(self, i):
        self.i = i

    def __eq__(self, other):
        return isinstance(other, Fragile) and other.i == self.i

    def __hash__(self):
        return hash(("Fragile", self.i))

    def __repr__(self):
        return "Fragile(%d)" % self.i

    def __deepcopy__(self, memo):
        return Fragile(self.i)

    def __reduce__(self):
        return (_rebuild_fragile, (self.i,))


def _rebuild_fragile(i):
    if FRAGILE["fail_at"] == i:
        raise AttributeError("Can't get attribute 'Fragile' (simulated)")
    return Fragile(i)


# ---- stages ---------------------------------------------------------------------

def _split(v):
    if isinstance(v, tuple) and len(v) == 2 and isinstance(v[1], dict):
        return v[0], v[1]
    return v, None


def _tag(name):
    def f(v):
        d, c = _split(v)
        d = d + (name,)
        if c is None:
            return d
        c = dict(c)
        c[name] = len(d)
        return (d, c)
    f.__name__ = "tag_" + name
    return f


def _mut(name):
    """changes the context of the value in place (and hands on the same objects)"""
    def f(v):
        d, c = _split(v)
        if c is None:
            return d + (name,)
        c[name] = c.get(name, 0) + 1
        c.setdefault("hist", []).append(name)
        return v
    f.__name__ = "mut_" + name
    return f


PREDS = {
    "even": lambda v: _split(v)[0][1] % 2 == 0,
    "not3": lambda v: _split(v)[0][1] % 3 != 0,
    "none": lambda v: False,
    "all": lambda v: True,
}


class Stage(object):
    """a counted, fault-injectable function"""

    def __init__(self, recipe):
        self.recipe = recipe
        self.calls = 0
        self.fail_at = None
        if recipe[0] == "map":
            self.f = _tag(recipe[1])
        elif recipe[0] == "mut":
            self.f = _mut(recipe[1])
        else:
            self.f = PREDS[recipe[1]]

    def __call__(self, v):
        if self.fail_at is not None and self.calls == self.fail_at:
            self.calls += 1
            raise _RAISE[0]()
        self.calls += 1
        return self.f(v)


def upstream_values(n, version, with_ctx):
    """with_ctx: False (bare tuples), True (fresh context per value), "big"
    (contexts padded so that the pickle stream crosses file-buffer
    boundaries), "shared" (see share())"""
    out = []
    for i in range(n):
        d = (version, i)
        if with_ctx == "fragile":
            out.append((version, i, Fragile(i)))
        elif not with_ctx:
            out.append(d)
        elif with_ctx == "big":
            out.append((d, {"v": version, "i": i, "pad": "x" * 3000}))
        elif with_ctx == "repeat":
            # string objects at several places of a value: one common to all values of the run, one of its own
            s = "tag-%s" % (version,)
            own = "own-%s-%s" % (version, i)
            out.append((d, {"v": version, "i": i, "s": s, "t": [s, own, s], "u": {"k": s, "own": own, "l": [own]}}))
        else:
            out.append((d, {"v": version, "i": i}))
    return out


def share(values, mode):
    """mode "shared": the upstream re-uses one context dictionary for all
    values and updates it in place between them (each value is what it is at
    the moment it passes)"""
    if mode != "shared":
        for v in values:
            yield v
        return
    ctx = {}
    for d, c in values:
        ctx.clear()
        ctx.update(c)
        yield (d, ctx)


class CountingSource(object):
    def __init__(self, values, fail_at=None, mode=None):
        self.values = values
        self.pulls = 0
        self.fail_at = fail_at
        self.mode = mode

    def __call__(self):
        return self.gen()

    def gen(self):
        for i, v in enumerate(share(self.values, self.mode)):
            if self.fail_at is not None and i == self.fail_at:
                raise _RAISE[0]()
            self.pulls += 1
            yield v
        if self.fail_at is not None and self.fail_at >= len(self.values):
            raise _RAISE[0]()


# ---- the model ---------------------------------------------------------------------

class MCache(object):
    def __init__(self, state, recompute, break_at=None):
        self.state = state
        self.recompute = recompute
        self.break_at = break_at
        self.mode = None
        self.passed = []
        self.completed = False
        self.started = False

    def run(self, flow):
        # the choice is made when the pipeline is assembled, before any value flows
        if self.state is not None and not self.recompute:
            self.mode = "replay"
            return self._replay()
        self.mode = "fill"
        return self._fill(flow)

    def _replay(self):
        for v in copy.deepcopy(list(self.state)):
            if self.break_at is not None and _split(v)[0][1] == self.break_at:
                # this value cannot be loaded any more: an error, never a silently shorter flow
                raise UnpickleFails()
            yield v

    def _fill(self, flow):
        self.started = True
        for v in flow:
            # what is stored is the value as it is when it passes
            self.passed.append(copy.deepcopy(v))
            yield v
        self.completed = True


def _model_chain(stages, world, recompute, flow, fault, break_at=None):
    """lazily chained generators mirroring Sequence.run; returns (iterator, model caches)"""
    mcaches = {}

    def mapgen(f, fl, idx):
        cnt = 0
        for v in fl:
            if fault and fault[0] == idx and cnt == fault[1]:
                raise _RAISE[0]()
            cnt += 1
            yield f(v)

    def filtgen(p, fl, idx):
        cnt = 0
        for v in fl:
            if fault and fault[0] == idx and cnt == fault[1]:
                raise _RAISE[0]()
            cnt += 1
            if p(v):
                yield v

    for idx, r in enumerate(stages):
        if r[0] == "map":
            flow = mapgen(_tag(r[1]), flow, idx)
        elif r[0] == "mut":
            flow = mapgen(_mut(r[1]), flow, idx)
        elif r[0] == "filter":
            flow = filtgen(PREDS[r[1]], flow, idx)
        else:
            mc = MCache(world[r[1]], recompute.get(r[1], False), break_at)
            mcaches[r[1]] = (idx, mc)
            flow = mc.run(flow)
    return flow, mcaches


def _src_gen(values, fault, mode=None):
    for i, v in enumerate(share(values, mode)):
        if fault and fault[0] == -1 and i == fault[1]:
            raise _RAISE[0]()
        yield v
    if fault and fault[0] == -1 and fault[1] >= len(values):
        raise _RAISE[0]()


def _consume(it, stop):
    """returns (out, completed, exc)"""
    out = []
    try:
        if stop[0] == "take":
            for _ in range(stop[1]):
                try:
                    out.append(copy.deepcopy(next(it)))
                except StopIteration:
                    return out, True, None
            return out, False, None
        for v in it:
            out.append(copy.deepcopy(v))
        return out, True, None
    except BOOMS:
        return out, False, "Boom"
    except UnpickleFails:
        return out, False, "unpickle"
    except AttributeError:
        if FRAGILE["fail_at"] is None:
            raise
        return out, False, "unpickle"


def simulate(stages, world, op, values, mode=None, recompute=None):
    """One run in one world -> (out, completed, exc, untouched stage indices, successor worlds, last replaying cache index)"""
    fault = op.get("fault")
    if recompute is None:
        recompute = op.get("recompute", {})
    driver = op["driver"]
    stop = op["stop"]
    if stop[0] == "kill":
        stop = ["take", stop[1]]
    _RAISE[0] = BoomBase if fault and len(fault) > 2 and fault[2] == "base" else Boom
    # (stages may change values in place: every use gets its own copies)
    pristine = copy.deepcopy(values)
    fresh = lambda: copy.deepcopy(pristine)
    if driver == "split1":
        # Split materialises the (single) block before the branch runs
        try:
            buf = list(_src_gen(fresh(), fault, mode))
        except BOOMS:
            return [], False, "Boom", set(), [dict(world)], -1
        base = lambda: iter(list(_src_gen(fresh(), None, mode)))
        flow, mc = _model_chain(stages, world, recompute, iter(buf), fault, op.get("break_at"))
    else:
        base = lambda: _src_gen(fresh(), None, mode)
        flow, mc = _model_chain(stages, world, recompute, _src_gen(fresh(), fault, mode), fault, op.get("break_at"))
    out, completed, exc = _consume(flow, stop)
    if hasattr(flow, "close"):
        flow.close()
    # stages before the last replaying cache must not be touched
    last_replay = -1
    for name, (idx, m) in mc.items():
        if m.mode == "replay":
            last_replay = max(last_replay, idx)
    untouched = set(i for i in range(last_replay) if stages[i][0] != "cache")
    # successor states per cache
    options = {}
    for name, (idx, m) in mc.items():
        old = world[name]
        if m.mode == "replay":
            options[name] = [old]
        elif idx < last_replay:
            # never iterated: a later cache replays
            options[name] = [old]
        elif m.completed:
            options[name] = [list(m.passed)]
        else:
            opts = [old, None]
            # everything the upstream has to give was seen (the consumer stopped exactly at the end)
            full_flow, _ = _model_chain(stages[:idx], world, recompute, base(), None)
            try:
                full = [copy.deepcopy(v) for v in full_flow]
            except BOOMS:
                full = None
            if m.started and full is not None and list(m.passed) == full:
                opts.append(list(m.passed))
            options[name] = opts
    names = sorted(world)
    succ = []
    for combo in itertools.product(*[options.get(nm, [world[nm]]) for nm in names]):
        succ.append(dict(zip(names, combo)))
    return out, completed, exc, untouched, succ, last_replay


def _freeze(world):
    return tuple((k, None if v is None else tuple(map(repr, v))) for k, v in sorted(world.items()))


# ---- the real thing --------------------------------------------------------------------

def cache_path(name, layout="flat"):
    """the file of cache *name* (name includes the data set); in the current directory or in a directory of its own"""
    return "cache_%s.pkl" % name if layout == "flat" else os.path.join("d_%s" % name, "cache.pkl")


_PROTOCOL = [None]      # pickle protocol given to the caches of the case being judged (None: the default)


def _cache(path, recompute):
    if _PROTOCOL[0] is None:
        return Cache(path, recompute=recompute)
    return Cache(path, recompute=recompute, protocol=_PROTOCOL[0])


class Real(object):
    """the pipeline elements of one program; rebuilt for every run unless the
    history re-uses its objects (one process running the same sequence again)"""

    def __init__(self, stages, recompute, templated=False, ds="", layout="flat"):
        self.els, self.stage_objs, self.caches = [], {}, {}
        self.ds = ds
        self.setters = {}
        for idx, r in enumerate(stages):
            if r[0] in ("map", "mut"):
                s = Stage(r)
                self.stage_objs[idx] = s
                self.els.append(s)
            elif r[0] == "filter":
                s = Stage(r)
                self.stage_objs[idx] = s
                self.els.append(Filter(s))
            else:
                if templated:
                    # all caches are built from one template and named by the static context
                    self.setters[len(self.els)] = r[1]
                    self.els.append(SetContext("stage", r[1] + ds))
                    c = _cache(cache_path("{{stage}}", layout), recompute.get(r[1], False))
                else:
                    c = _cache(cache_path(r[1], layout), recompute.get(r[1], False))
                self.caches[r[1]] = c
                self.els.append(c)
        self.seq = None
        self.source = None
        self.cur_src = None

    def rebind(self, ds):
        """the same analysis elements (caches with a templated name among them) put into a new sequence
        for another data set: the static context names other cache files"""
        for i, nm in self.setters.items():
            self.els[i] = SetContext("stage", nm + ds)
        self.ds = ds
        self.seq = None
        self.source = None


def run_real(stages, op, values, mode=None, real=None, templated=False, ds="", layout="flat"):
    fault = op.get("fault")
    reuse = real is not None
    if real is None:
        real = Real(stages, op.get("recompute", {}), templated, ds, layout)
    elif real.ds != ds:
        real.rebind(ds)
    els, stage_objs = real.els, real.stage_objs
    before = dict((idx, s.calls) for idx, s in stage_objs.items())
    for s in stage_objs.values():
        s.fail_at = None
    if fault and fault[0] >= 0:
        stage_objs[fault[0]].fail_at = stage_objs[fault[0]].calls + fault[1]
    src = CountingSource(values, fail_at=fault[1] if fault and fault[0] == -1 else None, mode=mode)
    _RAISE[0] = BoomBase if fault and len(fault) > 2 and fault[2] == "base" else Boom
    FRAGILE["fail_at"] = op.get("break_at")
    driver = op["driver"]
    how = driver
    if reuse:
        how = driver + ":reused"
        real.cur_src = src
        if driver == "source":
            if real.source is None:
                real.source = Source(lambda: real.cur_src(), *els)
            it = real.source()
        else:
            if real.seq is None:
                real.seq = Sequence(*els)
            it = real.seq.run(src())
    elif driver == "seq":
        it = Sequence(*els).run(src())
    elif driver == "nested":
        cut = op.get("cut", 1) % (len(els) + 1)
        it = Sequence(Sequence(*els[:cut]), Sequence(*els[cut:])).run(src())
    elif driver == "source":
        it = Source(src, *els)()
    elif driver in ("alter_static", "alter_meta", "alter_nested"):
        if driver == "alter_nested":
            # nested sequences: alter_sequence works on the flattened sequence
            cut = op.get("cut", 1) % (len(els) + 1)
            head = [Sequence(*els[:cut])] if cut else []
            if op.get("cut", 1) % 2:
                seq = Sequence(*(head + list(els[cut:])))
            else:
                seq = Sequence(*(head + [Sequence(*els[cut:])]))
            driver = "alter_static"
            how = "alter_nested"
        else:
            seq = Sequence(*els)
        if driver == "alter_static":
            new = Cache.alter_sequence(seq)
        else:
            new = lena.core.alter_sequence(seq)
        if isinstance(new, Source):
            how = how + ":source"
            it = new()
        else:
            it = new.run(src())
    elif driver == "split1":
        it = Split([tuple(els)], bufsize=op.get("bufsize")).run(src())
    else:
        raise AssertionError(driver)
    stop = op["stop"]
    if stop[0] == "kill":
        # the process dies after k values: no finally clause, no generator close
        pid = os.fork()
        if pid == 0:
            try:
                _consume(it, ["take", stop[1]])
            finally:
                os._exit(0)
        os.waitpid(pid, 0)
        out, completed, exc = None, False, None
    else:
        out, completed, exc = _consume(it, stop)
    if hasattr(it, "close"):
        it.close()
    del it
    gc.collect()
    FRAGILE["fail_at"] = None
    calls = dict((idx, s.calls - before[idx]) for idx, s in stage_objs.items())
    return out, completed, exc, src.pulls, calls, how


# ---- judge ----------------------------------------------------------------------------------

def judge_history(case):
    stages, n, with_ctx = case["stages"], case["n"], case["ctx"]
    mode = "shared" if with_ctx == "shared" else None
    cache_names = [r[1] for r in stages if r[0] == "cache"]
    # (caches named by a template: every data set has its own files, hence its own possible worlds)
    worlds_by_ds = {}
    cur_ds = ""
    classes = ["caches:%d" % len(cache_names), "values:%s" % with_ctx]
    interrupted_first_fill = False
    followed = False
    reuse = bool(case.get("reuse"))
    fixed_recompute = case.get("recompute0", {}) if reuse else None
    with instr.Sandbox("lena-c18-"):
        templated = bool(case.get("templated"))
        _PROTOCOL[0] = case.get("protocol")
        classes.append("protocol:%s" % _PROTOCOL[0])
        layout = case.get("layout", "flat")
        classes.append("cache-files:" + layout)
        real = Real(stages, fixed_recompute, templated, "", layout) if reuse else None
        for step, op in enumerate(case["ops"]):
            version = step + 1
            if op["op"] == "drop":
                nm = op["which"]
                if nm not in cache_names:
                    continue
                drop_ds = cur_ds if reuse else ""
                worlds = worlds_by_ds.setdefault(drop_ds, [dict((nm_, None) for nm_ in cache_names)])
                try:
                    (real.caches[nm] if reuse else Cache(cache_path(nm, layout))).drop_cache()
                except OSError:
                    if all(w[nm] is not None for w in worlds):
                        raise Violation("drop_cache-fails-on-existing-cache", "step %d of %s" % (step, case))
                for w in worlds:
                    w[nm] = None
                classes.append("drop")
                continue
            # (the last run is a new program: fresh elements)
            reused = reuse and step < len(case["ops"]) - 1
            if reused:
                op = dict(op)
                op["driver"] = "source" if case.get("reuse_driver") == "source" else "seq"
            # (the upstream may deliver a different number of values in every run)
            values = upstream_values(op.get("n", n), version, with_ctx)
            cur_ds = op.get("ds", "") if templated else ""
            if cur_ds:
                classes.append("same-elements-under-another-static-context" if reused else "other-data-set")
            worlds = worlds_by_ds.setdefault(cur_ds, [dict((nm_, None) for nm_ in cache_names)])
            out, completed, exc, pulls, calls, how = run_real(stages, op, copy.deepcopy(values), mode, real if reused else None, templated, cur_ds, layout)
            killed = op["stop"][0] == "kill"
            matched = []
            sims = []
            for w in worlds:
                m_out, m_completed, m_exc, untouched, succ, last_replay = simulate(
                    stages, w, op, values, mode, fixed_recompute if reused else None)
                sims.append((w, m_out, m_completed, m_exc))
                if killed or (m_out == out and m_completed == completed and m_exc == exc):
                    matched.append((w, untouched, succ, last_replay))
            if not matched:
                sig = "run-output-differs-from-model"
                if completed and exc is None:
                    vers = set(_split(v)[0][0] for v in out)
                    if vers and max(vers) < version:
                        sig = "stale-or-truncated-cache-replayed"
                    for w_, mo, mc_, me in sims:
                        if mc_ and len(out) < len(mo) and mo[:len(out)] == out:
                            sig = "truncated-flow-presented-as-complete"
                raise Violation(sig, "step %d %s (%s) of history %s over stages %s, n=%d values=%s: got %s completed=%s exc=%s; "
                                     "model (possible cache states %s) expects %s" % (
                                         step, op, how, case["ops"][:step + 1], stages, n, with_ctx, short(out, 300),
                                         completed, exc, short([w for w, _, _, _ in sims], 200),
                                         short([(mo, mc_, me) for _, mo, mc_, me in sims], 400)))
            # no pulls, no element calls upstream of a replaying cache
            if not killed:
                ok_touch = False
                for w, untouched, succ, last_replay in matched:
                    bad = [i for i in untouched if calls.get(i, 0)]
                    src_bad = last_replay >= 0 and pulls and op["driver"] != "split1"
                    if not bad and not src_bad:
                        ok_touch = True
                if not ok_touch:
                    raise Violation("upstream-touched-although-cache-replays",
                                    "step %d %s (%s) of %s over %s: pulls=%d calls=%s" % (
                                        step, op, how, case["ops"][:step + 1], stages, pulls, calls))
            new = {}
            for w, untouched, succ, last_replay in matched:
                for s in succ:
                    new[_freeze(s)] = s
            worlds = list(new.values())
            worlds_by_ds[cur_ds] = worlds
            # classification
            last_cache = max(i for i, r in enumerate(stages) if r[0] == "cache")
            any_fill = any(lr < last_cache for _, _, _, lr in matched)
            if not completed:
                classes.append("interrupted:" + op["stop"][0] if op["stop"][0] != "complete" else "interrupted:raise")
                if any_fill and (killed or 0 < len(out) < len(values)):
                    interrupted_first_fill = True
            elif interrupted_first_fill:
                followed = True
            if any(lr >= 0 for _, _, _, lr in matched):
                classes.append("replay")
            classes.append("driver:" + how)
            if len(worlds) > 1:
                classes.append("several-possible-worlds")
    nontrivial = followed or (len(cache_names) == 2 and "replay" in classes)
    if followed:
        classes.append("interrupted-fill-then-complete-run")
    return {"nontrivial": nontrivial, "classes": sorted(set(classes))}


# ---- strategy ----------------------------------------------------------------------------------

plain_stage = st.one_of(
    st.builds(lambda nm: ["map", nm], st.sampled_from(["a", "b", "c"])),
    st.builds(lambda nm: ["mut", nm], st.sampled_from(["m", "k"])),
    st.builds(lambda p: ["filter", p], st.sampled_from(["even", "not3", "all", "none", "even"])),
)

DRIVERS = ["seq", "seq", "source", "alter_static", "alter_meta", "nested", "split1", "alter_nested"]


@st.composite
def history_case(draw, big=False):
    two = draw(st.integers(0, 3)) == 0
    pre = draw(st.lists(plain_stage, max_size=2))
    post = draw(st.lists(plain_stage, max_size=2))
    stages = pre + [["cache", "A"]]
    if two:
        stages += draw(st.lists(plain_stage, max_size=2)) + [["cache", "B"]]
    stages += post
    n = draw(st.integers(0, 16 if big else 8))
    nstages = len(stages)
    names = ["A", "B"] if two else ["A"]
    fallible = [-1] + [i for i, r in enumerate(stages) if r[0] != "cache"]
    case = {"stages": stages, "n": n, "ctx": draw(st.sampled_from([False, True, True, "shared", "big", "big", "fragile", "repeat", "repeat"])),
            "protocol": draw(st.sampled_from([None, None, 0, 4, 4, 5]))}
    if draw(st.integers(0, 3)) == 0:
        case["templated"] = True
    if draw(st.integers(0, 2)) == 0:
        case["layout"] = "subdir"
    if draw(st.integers(0, 3 if not case.get("templated") else 1)) == 0:
        case["reuse"] = True
        case["reuse_driver"] = draw(st.sampled_from(["seq", "source"]))
        case["recompute0"] = dict((nm, True) for nm in names if draw(st.integers(0, 2)) == 0)

    def stop_or_fault(op, kind):
        if kind == "take":
            op["stop"] = ["take", draw(st.integers(0, n + 1))]
        elif kind == "kill":
            op["stop"] = ["kill", draw(st.integers(0, n + 1))]
        elif kind == "raise":
            op["fault"] = [draw(st.sampled_from(fallible)), draw(st.integers(0, n))]
            if draw(st.integers(0, 2)) == 0:
                # not an Exception (KeyboardInterrupt, SystemExit ...)
                op["fault"].append("base")

    ops = []
    for _ in range(draw(st.integers(1, 10 if big else 6))):
        kind = draw(st.sampled_from(["complete", "complete", "take", "take", "raise", "raise", "drop", "recompute", "kill"]))
        if kind == "drop":
            ops.append({"op": "drop", "which": draw(st.sampled_from(names))})
            continue
        op = {"op": "run", "driver": draw(st.sampled_from(DRIVERS)), "stop": ["complete"]}
        if op["driver"] in ("nested", "alter_nested"):
            op["cut"] = draw(st.integers(0, nstages))
        if op["driver"] == "split1":
            op["bufsize"] = draw(st.sampled_from([None, 1000]))
        if kind == "recompute":
            rc = dict((nm, True) for nm in names if draw(st.booleans()))
            op["recompute"] = rc or {"A": True}
            kind = draw(st.sampled_from(["complete", "take", "raise"]))
        stop_or_fault(op, kind)
        if case["ctx"] == "fragile" and kind == "complete" and draw(st.booleans()):
            # in this run one of the stored values can no longer be unpickled
            op["break_at"] = draw(st.integers(0, max(n - 1, 0)))
        if draw(st.integers(0, 3)) == 0:
            op["n"] = draw(st.integers(0, 8))
        if case.get("templated") and draw(st.integers(0, 2)) == 0:
            op["ds"] = draw(st.sampled_from(["x", "y"]))
        ops.append(op)
    # every history ends with a complete plain run that reveals what was kept
    # (in a new program: fresh elements even if the history re-used its own)
    ops.append({"op": "run", "driver": draw(st.sampled_from(DRIVERS)), "stop": ["complete"], "cut": draw(st.integers(0, nstages)), "bufsize": None,
                "n": draw(st.sampled_from([n, n, n + 1, 2]))})
    case["ops"] = ops
    return case


def crash_point_cases(tier):
    """every crash point of a first fill, followed by a complete run (enumerated)"""
    pipelines = [
        [["cache", "A"]],
        [["map", "a"], ["cache", "A"], ["map", "b"]],
        [["filter", "even"], ["cache", "A"], ["filter", "not3"]],
        [["map", "a"], ["cache", "A"], ["map", "b"], ["cache", "B"], ["map", "c"]],
        [["mut", "m"], ["cache", "A"], ["mut", "k"]],
    ]
    ns = range(0, 6) if tier == "quick" else range(0, 9)
    for stages in pipelines:
        fallible = [-1] + [i for i, r in enumerate(stages) if r[0] != "cache"]
        for n in ns:
            for d1 in ("seq", "source", "split1"):
                for d2 in ("seq", "alter_static", "source"):
                    for ctx in (False, True, "shared"):
                        stops = [("take", k) for k in range(n + 2)] + [("raise", f, k) for f in fallible for k in range(n + 1)]
                        if d1 == "seq" and d2 == "seq":
                            stops += [("kill", k) for k in range(n + 2)]
                        for s in stops:
                            op = {"op": "run", "driver": d1, "stop": ["complete"], "bufsize": None}
                            if s[0] in ("take", "kill"):
                                op["stop"] = [s[0], s[1]]
                            else:
                                op["fault"] = [s[1], s[2]]
                            yield {"stages": stages, "n": n, "ctx": ctx, "ops": [
                                op, {"op": "run", "driver": d2, "stop": ["complete"]},
                                {"op": "run", "driver": "seq", "stop": ["complete"]}]}


# ---- a filled Cache as a branch of a Split (hoisted into a Source when the Split is built) ------------------

@st.composite
def hoist_case(draw):
    return {"n": draw(st.integers(0, 5)), "ctx": draw(st.sampled_from([False, True])),
            "order": draw(st.sampled_from(["cache", "cache_first", "cache_last", "two_caches"])),
            "bufsize": draw(st.sampled_from([1, 2, 3, None, 1000])), "copy_buf": draw(st.booleans()),
            "flows": draw(st.lists(st.integers(0, 5), min_size=1, max_size=3))}


def judge_hoist(case):
    stored = upstream_values(case["n"], 1, case["ctx"])
    with instr.Sandbox("lena-c18h-"):
        got0 = list(Sequence(Cache("cache_H.pkl")).run(iter(copy.deepcopy(stored))))
        if got0 != stored:
            raise Violation("first-run-alters-the-flow", "%s" % short(got0))
        if case["order"] == "two_caches":
            list(Sequence(Cache("cache_G.pkl")).run(iter(copy.deepcopy(stored[:2]))))
        tagb = lambda v: ("b", copy.deepcopy(v))
        order = case["order"]
        branches = {"cache": [Cache("cache_H.pkl")], "cache_first": [Cache("cache_H.pkl"), (tagb,)],
                    "cache_last": [(tagb,), Cache("cache_H.pkl")],
                    "two_caches": [Cache("cache_H.pkl"), (tagb,), Cache("cache_G.pkl")]}[order]
        sp = Split(branches, bufsize=case["bufsize"], copy_buf=case["copy_buf"])
        for run_no, m in enumerate(case["flows"]):
            flow = upstream_values(m, 7 + run_no, case["ctx"])
            src = CountingSource(copy.deepcopy(flow))
            try:
                got = list(sp.run(src()))
            except Exception as e:
                if type(e).__module__.startswith("harness"):
                    raise
                raise Violation("split-with-hoisted-cache-fails", "%s run %d: %s: %s" % (case, run_no, type(e).__name__, e))
            bs = case["bufsize"] or max(m, 1)
            blocks = [flow[i:i + bs] for i in range(0, m, bs)] or [[]]
            exp = []
            for bi, blk in enumerate(blocks):
                for br in (["H"] if order == "cache" else ["H", "b"] if order == "cache_first" else ["b", "H"] if order == "cache_last" else ["H", "b", "G"]):
                    if br == "b":
                        exp.extend(("b", v) for v in blk)
                    elif bi == 0:
                        exp.extend(stored if br == "H" else stored[:2])
            if got != exp:
                sig = "hoisted-cache-in-split-does-not-replay-the-stored-flow"
                raise Violation(sig, "%s: run %d of the same Split over %d values yields %s, expected %s" % (
                    case, run_no, m, short(got, 300), short(exp, 300)))
    return {"nontrivial": len(case["flows"]) > 1 and case["n"] > 0,
            "classes": ["branches:" + order, "runs:%d" % len(case["flows"]), "bufsize:%s" % case["bufsize"]]}


class EagerStore(object):
    """a fill/compute element between the caches (Sequence runs such an element eagerly: it is filled when run() is
    called); it passes on what it was filled with and counts its fills"""

    def __init__(self, log):
        self.log, self.vals = log, []

    def fill(self, v):
        self.log.append("fill")
        self.vals.append(v)

    def compute(self):
        for v in self.vals:
            yield v
        self.vals = []


@st.composite
def hoist_last_case(draw):
    return {"n": draw(st.integers(0, 5)), "ctx": draw(st.sampled_from([False, True])),
            "filled": draw(st.sampled_from(["both", "both", "both", "first", "second"])),
            "between": draw(st.sampled_from(["eager", "eager", "map", "eager_and_map"])),
            "driver": draw(st.sampled_from(["alter_static", "alter_meta", "alter_nested", "split_branch"])),
            "m": draw(st.integers(0, 4))}


def judge_hoist_last(case):
    """two caches with an element between them; alter_sequence must start the hoisted Source at the LAST filled cache:
    nothing before it is run (an eager element between the caches would be filled from the first cache otherwise)"""
    n = case["n"]
    first = upstream_values(n, 1, case["ctx"])
    log = []
    pre = lambda v: (log.append("pre") or ("a", copy.deepcopy(v)))       # noqa
    mid = lambda v: (log.append("mid") or ("m", copy.deepcopy(v)))       # noqa
    post = lambda v: ("p", copy.deepcopy(v))                                # noqa

    def between():
        return {"eager": [EagerStore(log)], "map": [mid], "eager_and_map": [EagerStore(log), mid]}[case["between"]]

    def els():
        return [pre, Cache("cache_1.pkl")] + between() + [Cache("cache_2.pkl"), post]
    with instr.Sandbox("lena-c18l-"):
        src = CountingSource(copy.deepcopy(first))
        out1 = list(Sequence(*els()).run(src()))
        bw = (lambda v: ("m", v)) if "map" in case["between"] else (lambda v: v)
        stored1 = [("a", v) for v in first]
        stored2 = [bw(v) for v in stored1]
        if out1 != [("p", v) for v in stored2]:
            raise Violation("first-run-alters-the-flow", "%s: %s" % (case, short(out1, 300)))
        if case["filled"] == "first":
            os.remove("cache_2.pkl")
        elif case["filled"] == "second":
            os.remove("cache_1.pkl")
        del log[:]
        second = upstream_values(case["m"], 2, case["ctx"])
        src2 = CountingSource(copy.deepcopy(second))
        seq_els = els()
        d = case["driver"]
        if d == "split_branch":
            # the branch of a single-block Split is altered when the Split is built
            sp = Split([Sequence(*seq_els)], bufsize=None)
            got = list(sp.run(src2()))
        else:
            if d == "alter_nested":
                seq = Sequence(Sequence(*seq_els[:2]), Sequence(*seq_els[2:]))
            else:
                seq = Sequence(*seq_els)
            new = Cache.alter_sequence(seq) if d != "alter_meta" else lena.core.alter_sequence(seq)
            got = list(new() if isinstance(new, Source) else new.run(src2()))
        if case["filled"] == "both":
            exp, pulls, events = [("p", v) for v in stored2], 0, []
        elif case["filled"] == "second":
            exp, pulls, events = [("p", v) for v in stored2], 0, []
        else:
            exp, pulls = [("p", v) for v in stored2], 0
            events = (["fill"] * n if "eager" in case["between"] else []) + (["mid"] * n if "map" in case["between"] else [])
        if d == "split_branch" and case["m"] == 0 and got == []:
            # (an empty flow through a Split: the branch is run on no block at all - not judged)
            return {"nontrivial": False, "classes": ["split-empty-flow"]}
        if got != exp:
            raise Violation("stale-or-truncated-cache-replayed", "%s: with cache files %s present the run yields %s, expected %s" % (
                case, case["filled"], short(got, 300), short(exp, 300)))
        if d != "split_branch" and src2.pulls != pulls:
            raise Violation("upstream-pulled-although-a-cache-replays", "%s: %d values pulled from the source" % (case, src2.pulls))
        if sorted(log) != sorted(events):
            raise Violation("element-upstream-of-a-replaying-cache-is-run",
                            "%s: caches filled: %s; elements before the last filled cache were run: %s (expected %s)" % (
                                case, case["filled"], short(log, 200), short(events, 200)))
    return {"nontrivial": n > 0, "classes": ["filled:" + case["filled"], "between:" + case["between"], "driver:" + d]}


class Unpicklable(object):
    """a value pickle refuses (like a local function or an open file inside a context)"""

    def __init__(self, how):
        self.how = how

    def __eq__(self, other):
        return isinstance(other, Unpicklable)

    def __reduce__(self):
        import pickle
        if self.how == "pickling_error":
            raise pickle.PicklingError("cannot be pickled")
        if self.how == "type_error":
            raise TypeError("cannot pickle this object")
        raise AttributeError("Can't pickle local object")


@st.composite
def unpicklable_case(draw):
    n = draw(st.integers(1, 6))
    return {"n": n, "k": draw(st.integers(0, n - 1)), "how": draw(st.sampled_from(["pickling_error", "type_error", "attribute_error"])),
            "in_context": draw(st.booleans()), "driver": draw(st.sampled_from(["seq", "source", "alter_static", "alter_meta"])),
            "m": draw(st.integers(0, 6)), "protocol": draw(st.sampled_from([None, None, 4]))}


def judge_unpicklable(case):
    """a flow with a value that cannot be pickled at position k: whatever the first run does with it (the documented
    outcome is a pickle error), what it leaves on disk is not a complete flow, so no later run may replay it"""
    n, k = case["n"], case["k"]
    first = upstream_values(n, 1, True)
    bad = Unpicklable(case["how"])
    d, c = first[k]
    first[k] = (d, dict(c, bad=bad)) if case["in_context"] else ((d, bad), c)

    def mk():
        return Cache("cache_U.pkl") if case["protocol"] is None else Cache("cache_U.pkl", protocol=case["protocol"])
    post = lambda v: ("p", v)      # noqa
    with instr.Sandbox("lena-c18u-"):
        src = CountingSource(list(first))
        out1, exc1 = [], None
        try:
            for v in Sequence(mk(), post).run(src()):
                out1.append(v)
        except Exception as e:   # noqa
            exc1 = type(e).__name__
        if out1 != [("p", v) for v in first[:len(out1)]]:
            raise Violation("first-run-alters-the-flow", "%s: %s" % (case, short(out1, 300)))
        if exc1 is None and len(out1) != n:
            raise Violation("first-run-alters-the-flow", "%s: the first run ended after %d of %d values without an error" % (case, len(out1), n))
        second = upstream_values(case["m"], 2, True)
        src2 = CountingSource(copy.deepcopy(second))
        els = [mk(), post]
        dr = case["driver"]
        if dr == "seq":
            it = Sequence(*els).run(src2())
        elif dr == "source":
            it = Source(src2, *els)()
        else:
            new = Cache.alter_sequence(Sequence(*els)) if dr == "alter_static" else lena.core.alter_sequence(Sequence(*els))
            it = new() if isinstance(new, Source) else new.run(src2())
        got = list(it)
        exp = [("p", v) for v in second]
        if got != exp:
            raise Violation("stale-or-truncated-cache-replayed",
                            "%s: the first run over %d values (value %d cannot be pickled) ended with %s after %d values; the next run over %d new values yields %s, expected the new flow %s" % (
                                case, n, k, exc1 or "no error", len(out1), case["m"], short(got, 300), short(exp, 300)))
    return {"nontrivial": k > 0, "classes": ["first-run:" + (exc1 or "no-error"), "driver:" + dr, "how:" + case["how"]]}


CHECKS = [
    Check("histories", judge_history, strategy=lambda tier: history_case() if tier != "thorough" else st.one_of(history_case(), history_case(big=True)), quick=1500, thorough=50000,
          rule="pipelines pre* Cache [mid* Cache] post* x flows 0-8 (bare / fresh context / one shared context object updated in place / contexts large enough to cross file-buffer boundaries) x histories of 1-6 operations "
               "(complete run, take k, process killed after k values, raise at the source or any stage at its k-th value, recompute per cache, drop_cache) x drivers (Sequence, nested Sequences, Source, Cache.alter_sequence on flat and on nested sequences, "
               "lena.core.alter_sequence, single-block Split; fresh elements per run, or the same Sequence / Source object run again), ending with a complete run. "
               "Non-trivial = an interrupted fill (0 < k < n values delivered) followed by a completed run, or two caches with a replay."),
    Check("split_hoist", judge_hoist, strategy=lambda tier: hoist_case(), quick=300, thorough=6000,
          rule="a filled Cache given as a bare branch of a Split (alone, before or after a per-value branch, two caches), which Split hoists into a Source through alter_sequence when it is built; "
               "the same Split run 1-3 times over flows of 0-5 values with bufsize 1,2,3,None,1000: every run yields the stored flow once (at the first block) and the other branch's results per block. "
               "Non-trivial = more than one run and a non-empty stored flow."),
    Check("unpicklable", judge_unpicklable, strategy=lambda tier: unpicklable_case(), quick=300, thorough=5000,
          rule="a first run over 1-6 values of which value k cannot be pickled (PicklingError / TypeError / AttributeError from pickle; in the data or in the context), consumed to the end or to its error; "
               "then a run of fresh elements over a new upstream (Sequence, Source, Cache.alter_sequence, lena.core.alter_sequence): it must yield the new flow - the values stored before the failure are no complete flow. "
               "Non-trivial = k > 0 (a non-empty prefix could have been stored)."),
    Check("hoist_last", judge_hoist_last, strategy=lambda tier: hoist_last_case(), quick=400, thorough=6000,
          rule="two caches with an eagerly run fill/compute element and / or a map between them, both or one of them filled by a complete first run; the sequence is then altered "
               "(Cache.alter_sequence, lena.core.alter_sequence, nested sequences, the branch of a single-block Split) and run over another upstream: the stored flow is replayed, "
               "no value is pulled, and no element before the LAST filled cache is run (the element between the caches is not filled when both caches are filled). Non-trivial = a non-empty stored flow."),
    Check("crash_points", judge_history, cases=crash_point_cases, exhaustive=True,
          rule="complete enumeration: 4 pipelines x flow lengths 0-5 (0-8 thorough) x first-run driver x second-run driver x bare/context/shared context x every crash point of the first run "
               "(consumer stops after k = 0..n+1 values; source or any stage raises at value k = 0..n; process killed after k values), then two complete runs."),
]

"""C16 - FillRequest processes the flow in consecutive blocks, however it is driven."""
import copy

from harness.core import Check, Violation, short
from harness import instr
from hypothesis import strategies as st

import lena.core
import lena.core.adapters
import lena.core.split
import lena.core.fill_request_seq
from lena.core import (FillRequest, FillRequestSeq, Split, Sequence, LenaTypeError, LenaValueError)
from lena.flow import StoreFilled
from lena.math import Sum

PROPERTY = "C16"
LEVEL = "exploration"
RULE = ("FillRequest configurations (wrapped element kind x bufsize x buffer mode x reset x yield_on_remainder) "
        "driven by run, by generated fill/request histories and through Split / FillRequestSeq; oracles: block-wise "
        "reference built from a fresh wrapped element, lock-step reference model of fill/request, step watchdog, "
        "buffer and liveness bounds.")
ASSUMPTIONS = [
    "wrapped elements are harness classes (1:1, aggregate, early-stopping, expanding, stateful run elements; storing / "
    "counting / multi-result fill-compute elements; fill-request elements with and without reset) plus lena's Sum and StoreFilled",
    "'at most one block of buffered values' is checked in its satisfiable form: buffer_output never holds more than one block of "
    "input values alive, buffer_input holds at most what was filled since the last request, and both are drained by request()",
    "elements having both run and fill with different meanings (lena.flow.Count) are left out",
    "the step budget counts LINE events in lena/core/adapters.py, split.py and fill_request_seq.py; a hang inside C code would not be seen",
]

WATCHED = [lena.core.adapters, lena.core.split, lena.core.fill_request_seq]
STEP_BUDGET = 20000


# ---- wrapped elements --------------------------------------------------------

class MapRun(object):
    def run(self, flow):
        for v in flow:
            yield ("m", v)


class AggRun(object):
    def run(self, flow):
        yield ("agg", list(flow))


class EarlyRun(object):
    """reads only the first value of its flow"""

    def run(self, flow):
        for v in flow:
            yield ("first", v)
            return


class Early2Run(object):
    """reads two values of its flow, yields after the second"""

    def run(self, flow):
        got = []
        for v in flow:
            got.append(v)
            if len(got) == 2:
                break
        yield ("two", got)


class ExpandRun(object):
    def run(self, flow):
        for v in flow:
            yield ("e1", v)
            yield ("e2", v)


class FilterRun(object):
    def run(self, flow):
        for v in flow:
            if v % 2 == 0:
                yield ("even", v)


class CntRun(object):
    """stateful run element with a reset method"""

    def __init__(self):
        self.seen = 0

    def run(self, flow):
        for v in flow:
            self.seen += 1
            yield (v, self.seen)

    def reset(self):
        self.seen = 0


class FcStore(object):
    def __init__(self):
        self.b = []

    def fill(self, v):
        self.b.append(v)

    def compute(self):
        yield ("blk", list(self.b))

    def reset(self):
        self.b = []


class FcTwo(FcStore):
    def compute(self):
        yield ("blk", list(self.b))
        yield ("len", len(self.b))


class FcSparse(FcStore):
    """yields nothing for blocks with an odd sum"""

    def compute(self):
        if sum(self.b) % 2 == 0:
            yield ("evenblk", list(self.b))


class FcLen(FcStore):
    """results do not refer to the values (for the liveness bound)"""

    def compute(self):
        yield ("len", len(self.b))


class FcRefuse(FcStore):
    """refuses particular values with LenaStopFill (a refused value was not filled: it belongs to no block)"""

    def fill(self, v):
        if v in (4, 9) and v is not False:
            raise lena.core.LenaStopFill()
        self.b.append(v)


class FrStore(object):
    def __init__(self):
        self.b = []

    def fill(self, v):
        self.b.append(v)

    def request(self):
        yield ("req", list(self.b))

    def reset(self):
        self.b = []


class FrNoReset(object):
    def __init__(self):
        self.b = []

    def fill(self, v):
        self.b.append(v)

    def request(self):
        yield ("cum", list(self.b))


class NumSum(object):
    """lena.math.Sum behind a plain fill/compute/reset interface"""

    def __init__(self):
        self.el = Sum()

    def fill(self, v):
        self.el.fill(v)

    def compute(self):
        return self.el.compute()

    def reset(self):
        self.el.reset()


RUN_KINDS = {"map": MapRun, "agg": AggRun, "early": EarlyRun, "early2": Early2Run, "expand": ExpandRun,
             "filter": FilterRun, "cntrun": CntRun}
FILL_KINDS = {"fc_store": FcStore, "fc_two": FcTwo, "fc_sparse": FcSparse, "fc_len": FcLen, "sum": NumSum,
              "lena_sum": Sum, "storefilled": StoreFilled, "fr_store": FrStore, "fr_noreset": FrNoReset}
HAS_RESET = {"cntrun", "fc_store", "fc_two", "fc_sparse", "fc_len", "sum", "lena_sum", "storefilled", "fr_store"}
KINDS = dict(RUN_KINDS)
KINDS.update(FILL_KINDS)
HAS_RESET.add("fc_refuse")


def make_el(kind):
    if kind == "fc_refuse":
        return FcRefuse()
    return KINDS[kind]()


def el_results(el):
    if hasattr(el, "request"):
        return list(el.request())
    return list(el.compute())


def norm(results):
    """results in comparable form (lena Sum yields bare numbers)"""
    return [copy.deepcopy(r) for r in results]


class Renamed(object):
    """the wrapped element behind other method names; the usual names exist too and mean something else"""

    def __init__(self, el):
        self._el = el
        self.put = el.fill
        if hasattr(el, "request"):
            self.ask = el.request
        else:
            self.ask = el.compute
        if hasattr(el, "reset"):
            self.clear = el.reset

    def fill(self, v):
        self._el.fill(("wrong-method", v))

    def request(self):
        yield "wrong-method"

    def compute(self):
        yield "wrong-method"

    def reset(self):
        self._el.fill("wrong-reset")


def make_fr(cfg, el=None):
    if cfg.get("renamed") and el is None and cfg["kind"] in FILL_KINDS and cfg["kind"] not in ("lena_sum", "sum", "storefilled"):
        inner = make_el(cfg["kind"])
        kw = {"bufsize": cfg["n"], "yield_on_remainder": cfg["yor"], "fill": "put", "request": "ask"}
        if hasattr(inner, "reset"):
            kw["reset_name"] = "clear"
        if cfg["mode"] == "in":
            kw["buffer_input"] = True
        elif cfg["mode"] == "out":
            kw["buffer_output"] = True
        if cfg["reset"] is not None and hasattr(inner, "reset"):
            kw["reset"] = cfg["reset"]
        elif not hasattr(inner, "reset"):
            kw["reset"] = False
        return FillRequest(Renamed(inner), **kw)
    kw = {"bufsize": cfg["n"], "yield_on_remainder": cfg["yor"]}
    if cfg["mode"] == "in":
        kw["buffer_input"] = True
    elif cfg["mode"] == "out":
        kw["buffer_output"] = True
    if cfg["reset"] is not None:
        kw["reset"] = cfg["reset"]
    return FillRequest(el if el is not None else make_el(cfg["kind"]), **kw)


# ---- reference: run -----------------------------------------------------------

def ref_run(cfg, xs):
    """block by block from a fresh wrapped element"""
    kind, n = cfg["kind"], cfg["n"]
    el = make_el(kind)
    out = []
    blocks = [xs[i:i + n] for i in range(0, len(xs), n)]
    per_block = []
    for b in blocks:
        full = len(b) == n
        if not full and not cfg["yor"]:
            break
        if kind in RUN_KINDS:
            res = list(el.run(iter(b)))
        else:
            for v in b:
                el.fill(v)
            res = el_results(el)
        out.extend(res)
        per_block.append(res)
        if cfg["reset"] and kind in HAS_RESET:
            el.reset()
    return out, per_block


class RefFR(object):
    """reference model of the fill/request protocol, written from the
    documentation: results of a complete block are computed from an element
    that has seen exactly the values up to the end of that block; request()
    hands out everything available, and the remainder too if
    yield_on_remainder (then the next block starts after it)."""

    def __init__(self, cfg):
        self.cfg = cfg
        self.el = make_el(cfg["kind"])
        self.n = cfg["n"]
        self.cnt = 0
        self.ready = []

    def _close_block(self):
        self.ready.extend(el_results(self.el))
        if self.cfg["reset"]:
            self.el.reset()
        self.cnt = 0

    def fill(self, v):
        if self.cnt == self.n:
            self._close_block()
        self.el.fill(v)
        self.cnt += 1

    def request(self):
        if self.cnt == self.n or (self.cnt and self.cfg["yor"]):
            self._close_block()
        out, self.ready = self.ready, []
        return out


# ---- strategies -----------------------------------------------------------------

def cfgs(kinds):
    @st.composite
    def s(draw):
        kind = draw(st.sampled_from(sorted(kinds)))
        cfg = {"kind": kind, "n": draw(st.integers(1, 5)), "mode": draw(st.sampled_from(["in", "out"])),
               "yor": draw(st.sampled_from([False, False, True]))}
        if kind in HAS_RESET:
            cfg["reset"] = draw(st.booleans())
        elif kind in RUN_KINDS:
            cfg["reset"] = draw(st.sampled_from([None, False]))
        else:
            cfg["reset"] = False
        return cfg
    return s()


NUMERIC_ONLY = {"filter", "fc_sparse", "sum", "lena_sum"}


def flow_value(kind):
    """values of the flow: small integers; for elements that do not compute with them also None and
    false values (a value must never be mistaken for 'no value')"""
    if kind in NUMERIC_ONLY:
        return st.integers(0, 9)
    return st.one_of(st.integers(0, 9), st.integers(0, 9), st.integers(0, 9), st.sampled_from([None, None, False, ""]))


@st.composite
def run_case(draw, big=False):
    cfg = draw(cfgs(KINDS))
    if big:
        cfg["n"] = draw(st.integers(1, 9))
    if cfg["yor"] and draw(st.booleans()):
        # buffers are not used with yield_on_remainder: none is needed
        cfg["mode"] = draw(st.sampled_from(["none", "both"]))
    m = draw(st.integers(0, 60 if big else 17))
    flow = draw(st.lists(flow_value(cfg["kind"]), min_size=m, max_size=m))
    return {"cfg": cfg, "flow": flow, "via": draw(st.sampled_from(["direct", "sequence", "twice"]))}


def judge_run(case):
    cfg, xs, via = case["cfg"], case["flow"], case["via"]
    if cfg["mode"] == "both":
        kw = dict(bufsize=cfg["n"], yield_on_remainder=True, buffer_input=True, buffer_output=True)
        if cfg["reset"] is not None:
            kw["reset"] = cfg["reset"]
        fr = FillRequest(make_el(cfg["kind"]), **kw)
    else:
        fr = make_fr(cfg)
    exp, per_block = ref_run(cfg, xs)
    with instr.Watchdog(WATCHED, STEP_BUDGET + 200 * len(xs)) as w:
        try:
            if via == "sequence":
                got = list(Sequence(fr).run(list(xs)))
            else:
                got = list(fr.run(iter(list(xs))))
        except instr.StepBudgetExceeded:
            raise Violation("run-does-not-terminate", "%s on %s: more than %d steps" % (cfg, xs, w.budget))
    classes = ["kind:" + cfg["kind"], "mode:" + cfg["mode"], "yor" if cfg["yor"] else "no-yor",
               "reset" if cfg["reset"] else "no-reset"]
    if norm(got) != norm(exp):
        sig = "run-differs-from-blockwise-reference"
        if not xs:
            sig = "run-yields-for-empty-flow"
        elif len(xs) % cfg["n"] and not cfg["yor"] and norm(got)[:len(exp)] == norm(exp):
            sig = "run-yields-for-partial-block-without-yield_on_remainder"
        elif len(xs) % cfg["n"] and cfg["yor"]:
            sig = "run-wrong-with-yield_on_remainder"
        raise Violation(sig, "FillRequest(%s).run(%s) = %s, block by block a fresh element gives %s" % (
            cfg, xs, short(got, 400), short(exp, 400)))
    if via == "twice" and cfg["reset"] and cfg["kind"] in HAS_RESET and len(xs) % cfg["n"] == 0:
        # all blocks complete and the element reset after each: a second run is like the first
        got2 = list(fr.run(iter(list(xs))))
        if norm(got2) != norm(exp):
            raise Violation("second-run-after-reset-differs", "%s on %s: %s then %s" % (cfg, xs, short(got), short(got2)))
        classes.append("second-run")
    nblocks = len(xs) // cfg["n"]
    nontrivial = nblocks >= 2 and (len(xs) % cfg["n"] != 0 or cfg["kind"] in ("early", "early2", "cntrun", "fc_sparse"))
    classes.append("blocks:%s" % min(nblocks, 4))
    classes.append("remainder" if len(xs) % cfg["n"] else "aligned")
    return {"nontrivial": nontrivial, "classes": classes}


@st.composite
def history_case(draw, big=False):
    cfg = draw(cfgs(FILL_KINDS))
    if draw(st.integers(0, 7)) == 0:
        # an element that refuses some values (LenaStopFill from its fill): the value is not counted, the caller
        # (like Split) asks for the results once more and stops. (Not with buffer_input, where the element is
        # filled only when results are requested.)
        cfg["kind"], cfg["mode"], cfg["reset"] = "fc_refuse", draw(st.sampled_from(["out", "out", "none"])), draw(st.booleans())
        if cfg["mode"] == "none":
            cfg["yor"] = True
    if big:
        cfg["n"] = draw(st.integers(1, 9))
    if cfg["yor"] and draw(st.booleans()):
        # with yield_on_remainder neither buffer has to be given
        cfg["mode"] = "none"
    cfg["renamed"] = draw(st.integers(0, 3)) == 0      # the element's methods given by name (fill=, request=, reset_name=)
    nops = draw(st.integers(0, 90 if big else 30))
    # request probability varies per case so that long runs of fills occur
    preq = draw(st.sampled_from([1, 2, 3, 5]))
    ops = []
    for _ in range(nops):
        if draw(st.integers(0, 9)) < preq:
            ops.append("r")
        else:
            ops.append(draw(flow_value(cfg["kind"])))
    ops.append("r")
    return {"cfg": cfg, "ops": ops, "consume": draw(st.sampled_from(["list", "list", "lazy"]))}


def _buffers(fr, n):
    bo = getattr(fr, "_buffer_out", None)
    bi = getattr(fr, "_buffer_in", None)
    return bi, bo


def judge_history(case):
    cfg, ops = case["cfg"], case["ops"]
    n = cfg["n"]
    fr = make_fr(cfg)
    ref = RefFR(cfg)
    filled = []
    got_all, exp_all = [], []
    since_req = 0
    max_between = 0
    classes = ["kind:" + cfg["kind"], "mode:" + cfg["mode"], "yor" if cfg["yor"] else "no-yor",
               "reset" if cfg["reset"] else "no-reset"]
    misaligned = False
    for i, op in enumerate(ops):
        try:
            with instr.Watchdog(WATCHED, STEP_BUDGET) as w:
                if op == "r":
                    if case["consume"] == "lazy":
                        got = []
                        for r in fr.request():
                            got.append(r)
                    else:
                        got = list(fr.request())
                else:
                    refused = False
                    try:
                        fr.fill(op)
                    except lena.core.LenaStopFill:
                        refused = True
        except instr.StepBudgetExceeded:
            raise Violation("fill-request-call-does-not-terminate",
                            "%s: op %d (%r) of %s took more than %d steps" % (cfg, i, op, ops, STEP_BUDGET))
        if op == "r":
            exp = ref.request()
            if since_req > n:
                classes.append("more-than-a-block-between-requests")
            if len(filled) % n:
                misaligned = True
            max_between = max(max_between, since_req)
            since_req = 0
            got_all.extend(got)
            exp_all.extend(exp)
            if norm(got) != norm(exp):
                sig = "request-differs-from-reference"
                if norm(got_all) == norm(exp_all[:len(got_all)]) and len(got) < len(exp):
                    sig = "request-withholds-available-results"
                raise Violation(sig, "%s ops %s: request after %d fills yields %s, expected %s" % (
                    cfg, ops[:i + 1], len(filled), short(got, 300), short(exp, 300)))
            bi, bo = _buffers(fr, n)
            if bo is not None and len(bo):
                raise Violation("buffer-not-drained-by-request", "%s ops %s: _buffer_out %s" % (cfg, ops[:i + 1], short(bo)))
            if bi is not None and len(bi) >= n:
                raise Violation("buffer-not-drained-by-request", "%s ops %s: _buffer_in %s" % (cfg, ops[:i + 1], short(bi)))
        else:
            try:
                ref.fill(op)
                ref_refused = False
            except lena.core.LenaStopFill:
                ref_refused = True
            if refused != ref_refused:
                raise Violation("lenastopfill-of-the-element-not-passed-on",
                                "%s ops %s: fill(%r) %s, the wrapped element %s" % (
                                    cfg, ops[:i + 1], op, "raised LenaStopFill" if refused else "returned",
                                    "refuses that value" if ref_refused else "accepts it"))
            if refused:
                # the caller finalises: one more request, judged like every other, and nothing after it
                got, exp = list(fr.request()), ref.request()
                if norm(got) != norm(exp):
                    raise Violation("request-differs-from-reference",
                                    "%s ops %s: the element refused %r, the final request yields %s, expected %s (a refused value belongs to no block)" % (
                                        cfg, ops[:i + 1], op, short(got, 300), short(exp, 300)))
                classes.append("element-refused-a-value")
                return {"nontrivial": True, "classes": classes}
            filled.append(op)
            since_req += 1
            bi, bo = _buffers(fr, n)
            if bi is not None and len(bi) > since_req:
                raise Violation("buffer-exceeds-fills-since-request", "%s ops %s: _buffer_in %s" % (cfg, ops[:i + 1], short(bi)))
    # run on the whole flow gives the same (yield_on_remainder off)
    if not cfg["yor"]:
        exp_run, _ = ref_run(cfg, filled)
        if norm(got_all) != norm(exp_run):
            raise Violation("concatenated-requests-differ-from-run",
                            "%s ops %s: requests gave %s, run on the whole flow gives %s" % (
                                cfg, ops, short(got_all, 300), short(exp_run, 300)))
        # what is still inside are exactly the last len % n values: completing the block yields it
        rest = len(filled) % n
        more = [7] * (n - rest)
        for v in more:
            fr.fill(v)
            ref.fill(v)
        got = list(fr.request())
        exp = ref.request()
        if norm(got) != norm(exp):
            raise Violation("remainder-not-kept-for-the-next-block",
                            "%s ops %s then %s and a request: %s, expected %s" % (cfg, ops, more, short(got), short(exp)))
        exp_run2, _ = ref_run(cfg, filled + more)
        if norm(got_all + got) != norm(exp_run2):
            raise Violation("concatenated-requests-differ-from-run",
                            "%s ops %s + %s: %s vs run %s" % (cfg, ops, more, short(got_all + got), short(exp_run2)))
    elif cfg["reset"] and cfg["kind"] in ("fc_store", "fr_store", "storefilled"):
        # every value exactly once, in consecutive blocks of 1..n values
        vals = []
        for r in got_all:
            blk = r[1] if isinstance(r, tuple) else r
            if not 1 <= len(blk) <= n:
                raise Violation("block-size-out-of-range", "%s ops %s: block %s" % (cfg, ops, blk))
            vals.extend(blk)
        if vals != filled:
            raise Violation("values-not-accounted-for-exactly-once", "%s ops %s: blocks %s" % (cfg, ops, short(got_all)))
    nontrivial = (misaligned or max_between > n) and len(filled) > n
    if misaligned:
        classes.append("request-at-non-multiple")
    return {"nontrivial": nontrivial, "classes": classes}


@st.composite
def live_case(draw):
    n = draw(st.integers(1, 5))
    mode = draw(st.sampled_from(["in", "out", "out"]))
    nops = draw(st.integers(1, 40))
    preq = draw(st.sampled_from([0, 1, 2]))
    ops = ["r" if draw(st.integers(0, 9)) < preq else "f" for _ in range(nops)]
    return {"n": n, "mode": mode, "ops": ops + ["r"], "kind": draw(st.sampled_from(["fc_len", "fc_store"]))}


def judge_live(case):
    """weak references: how many input values does FillRequest keep alive"""
    n, mode, ops = case["n"], case["mode"], case["ops"]
    cfg = {"kind": case["kind"], "n": n, "mode": mode, "reset": True, "yor": False}
    fr = make_fr(cfg)
    lv = instr.Liveness()
    i = 0
    since_req = 0
    peak = 0
    for k, op in enumerate(ops):
        try:
            with instr.Watchdog(WATCHED, STEP_BUDGET):
                if op == "f":
                    fr.fill(lv.make(i))
                else:
                    res = list(fr.request())
        except instr.StepBudgetExceeded:
            raise Violation("fill-request-call-does-not-terminate",
                            "bufsize %d mode %s: op %d of %s took more than %d steps" % (n, mode, k, ops, STEP_BUDGET))
        if op == "f":
            i += 1
            since_req += 1
            live = lv.live()
            peak = max(peak, live)
            if case["kind"] == "fc_len" and mode == "out" and live > n:
                raise Violation("buffer_output-keeps-more-than-one-block-of-input-alive",
                                "bufsize %d, ops %s: %d input values alive" % (n, ops[:k + 1], live))
            if mode == "in" and live > since_req + n - 1:
                raise Violation("buffer_input-keeps-values-from-before-the-last-request",
                                "bufsize %d, ops %s: %d input values alive, %d filled since the last request" % (
                                    n, ops[:k + 1], live, since_req))
        else:
            del res
            since_req = 0
            live = lv.live()
            if live > n - 1:
                raise Violation("values-alive-after-request",
                                "bufsize %d mode %s, ops %s: %d input values alive after the results were dropped" % (
                                    n, mode, ops[:k + 1], live))
    return {"nontrivial": i > 2 * n, "classes": ["mode:" + mode, "peak>n" if peak > n else "peak<=n"]}


# ---- Split / FillRequestSeq around -------------------------------------------------

def pre_even(v):
    return v


PRES = {"id": lambda v: v, "add10": lambda v: v + 10}
POSTS = {"id": None, "wrap": lambda r: ("post", r)}


@st.composite
def split_case(draw):
    cfg = draw(cfgs(FILL_KINDS))
    driver = draw(st.sampled_from(["split_bare", "split_bare", "split_tuple", "split_common", "frseq_run", "split_sibling"]))
    m = draw(st.sampled_from([0, 1, 2] + list(range(3, 17)) * 2))
    flow = draw(st.lists(st.integers(0, 9), min_size=m, max_size=m))
    case = {"cfg": cfg, "driver": driver, "flow": flow,
            "s": draw(st.one_of(st.integers(1, 2 * cfg["n"] + 1), st.integers(1, 2 * cfg["n"] + 1), st.integers(1, 2 * cfg["n"] + 1),
                                st.sampled_from([None, 1000]))),
            "copy_buf": draw(st.booleans())}
    if driver == "split_tuple" or driver == "frseq_run":
        case["pre"] = draw(st.sampled_from(sorted(PRES)))
        case["post"] = draw(st.sampled_from(sorted(POSTS)))
    if driver == "split_common":
        case["cfg2"] = draw(cfgs(FILL_KINDS))
        ops = []
        for v in flow:
            ops.append(v)
            if draw(st.integers(0, 3)) == 0:
                ops.append("r")
        case["ops"] = ops + ["r"]
    return case


def _schedule(flow, s):
    """the fill/request schedule Split.run imposes on a fill/request branch"""
    if not flow:
        return ["r"]
    if s is None:
        return list(flow) + ["r"]
    ops = []
    for i in range(0, len(flow), s):
        ops.extend(flow[i:i + s])
        ops.append("r")
    return ops


def _ref_ops(cfg, ops, pre=None):
    ref = RefFR(cfg)
    out = []
    for op in ops:
        if op == "r":
            out.append(ref.request())
        else:
            ref.fill(pre(op) if pre else op)
    return out


def judge_split(case):
    cfg, driver, flow, s = case["cfg"], case["driver"], case["flow"], case["s"]
    n = cfg["n"]
    classes = ["driver:" + driver, "kind:" + cfg["kind"], "mode:" + cfg["mode"]]
    budget = STEP_BUDGET + 400 * len(flow)
    try:
        with instr.Watchdog(WATCHED, budget):
            if driver == "split_bare":
                sp = Split([make_fr(cfg)], bufsize=s, copy_buf=case["copy_buf"])
                got = list(sp.run(iter(list(flow))))
                exp = sum(_ref_ops(cfg, _schedule(flow, s)), [])
            elif driver == "split_sibling":
                sib = FcStore()
                sp = Split([make_fr(cfg), sib], bufsize=s, copy_buf=case["copy_buf"])
                got = list(sp.run(iter(list(flow))))
                exp = sum(_ref_ops(cfg, _schedule(flow, s)), []) + [("blk", list(flow))]
            elif driver == "split_tuple":
                pre, post = PRES[case["pre"]], POSTS[case["post"]]
                branch = (pre, make_fr(cfg)) + ((post,) if post else ())
                sp = Split([branch], bufsize=s, copy_buf=case["copy_buf"])
                got = list(sp.run(iter(list(flow))))
                exp = sum(_ref_ops(cfg, _schedule(flow, s), pre), [])
                if post:
                    exp = [post(r) for r in exp]
            elif driver == "frseq_run":
                pre, post = PRES[case["pre"]], POSTS[case["post"]]
                args = (pre, make_el(cfg["kind"])) + ((post,) if post else ())
                kw = {"bufsize": n, "reset": cfg["reset"], "yield_on_remainder": cfg["yor"]}
                kw["buffer_input" if cfg["mode"] == "in" else "buffer_output"] = True
                if cfg["kind"] in ("fr_store", "fr_noreset"):
                    frs = FillRequestSeq(*args, **kw)
                    got = list(frs.run(iter(list(flow))))
                    exp, _ = ref_run(cfg, [pre(v) for v in flow])
                    if post:
                        exp = [post(r) for r in exp]
                else:
                    # a fill/compute element is not a FillRequest element: must be refused
                    try:
                        FillRequestSeq(*args, **kw)
                    except LenaTypeError:
                        return {"nontrivial": False, "classes": classes + ["frseq-refuses-fill-compute"]}
                    raise Violation("fillrequestseq-accepts-no-fill-request-element", "%s" % (cfg,))
            elif driver == "split_common":
                cfg2 = case["cfg2"]
                sp = Split([make_fr(cfg), make_fr(cfg2)], copy_buf=case["copy_buf"])
                got, exp = [], []
                r1, r2 = RefFR(cfg), RefFR(cfg2)
                for op in case["ops"]:
                    if op == "r":
                        got.append(list(sp.request()))
                        exp.append(r1.request() + r2.request())
                    else:
                        sp.fill(op)
                        r1.fill(op)
                        r2.fill(op)
    except instr.StepBudgetExceeded:
        raise Violation("split-around-fillrequest-does-not-terminate",
                        "%s bufsize %r on %s: more than %d steps" % (cfg, s, flow, budget))
    if norm(got) != norm(exp):
        sig = "split-around-fillrequest-differs"
        if driver == "frseq_run":
            sig = "fillrequestseq-run-differs-from-blockwise-reference"
        raise Violation(sig, "%s: %s Split bufsize %r flow %s%s: got %s, expected %s" % (
            driver, cfg, s, flow, (" ops %s" % case["ops"]) if "ops" in case else "", short(got, 400), short(exp, 400)))
    if driver in ("split_bare", "split_tuple", "split_sibling") and not cfg["yor"]:
        # independent of the Split's bufsize: equals run on the whole flow
        pre = PRES[case["pre"]] if "pre" in case else (lambda v: v)
        exp_run, _ = ref_run(cfg, [pre(v) for v in flow])
        post = POSTS.get(case.get("post", "id"))
        if post:
            exp_run = [post(r) for r in exp_run]
        if driver == "split_sibling":
            exp_run = exp_run + [("blk", list(flow))]
        if norm(got) != norm(exp_run):
            raise Violation("split-around-fillrequest-differs-from-run",
                            "%s: %s Split bufsize %r flow %s: %s vs run %s" % (driver, cfg, s, flow, short(got), short(exp_run)))
    divides = s is not None and s < 1000 and (s % n == 0 or n % s == 0)
    classes.append("split-bufsize-%s" % ("none/large" if s in (None, 1000) else "aligned" if divides else "misaligned"))
    return {"nontrivial": len(flow) > n and not divides and s not in (None, 1000), "classes": classes}


# ---- constructor contract ---------------------------------------------------------------

def ctor_cases(tier):
    kinds = sorted(KINDS) + ["junk", "none"]
    for kind in kinds:
        for n in (1, 3, 0, -1, 1.5, 2.0):
            for bi in (None, True, False):
                for bo in (None, True, False):
                    for reset in (None, True, False):
                        for yor in (False, True):
                            yield {"kind": kind, "n": n, "bi": bi, "bo": bo, "reset": reset, "yor": yor}


def judge_ctor(case):
    kind = case["kind"]
    el = object() if kind == "junk" else None if kind == "none" else make_el(kind)
    kw = {"bufsize": case["n"], "yield_on_remainder": case["yor"]}
    for k, a in (("bi", "buffer_input"), ("bo", "buffer_output"), ("reset", "reset")):
        if case[k] is not None:
            kw[a] = case[k]
    n_ok = case["n"] in (1, 3, 2.0)
    buf_ok = case["yor"] or (bool(case["bi"]) + bool(case["bo"]) == 1)
    el_ok = kind in KINDS
    reset_ok = not (case["reset"] and kind not in HAS_RESET)
    if kind in FILL_KINDS and case["reset"] is None:
        reset_ok = False
    valid = n_ok and buf_ok and el_ok and reset_ok
    try:
        fr = FillRequest(el, **kw)
    except (LenaTypeError, LenaValueError):
        if valid:
            raise Violation("valid-configuration-refused", "%s" % (case,))
        return {"nontrivial": True, "classes": ["refused"]}
    if not valid:
        raise Violation("invalid-configuration-accepted", "%s" % (case,))
    # a valid one works on a small flow
    cfg = {"kind": kind, "n": int(case["n"]), "yor": case["yor"], "reset": case["reset"],
           "mode": "in" if case["bi"] else "out"}
    exp, _ = ref_run(cfg, [1, 2, 3, 4, 5, 6, 7])
    got = list(fr.run(iter([1, 2, 3, 4, 5, 6, 7])))
    if norm(got) != norm(exp):
        raise Violation("run-differs-from-blockwise-reference", "%s: %s vs %s" % (case, short(got), short(exp)))
    if kind in FILL_KINDS:
        # ... and under fill/request too (requests at aligned and misaligned points)
        cfg["mode"] = "in" if case["bi"] else "out" if case["bo"] else "none"
        fr2 = FillRequest(make_el(kind), **kw)
        ref = RefFR(cfg)
        for i, v in enumerate([1, 2, 3, 4, 5, 6, 7]):
            try:
                fr2.fill(v)
                ref.fill(v)
                if i in (1, 2, 6):
                    g, e = list(fr2.request()), ref.request()
                    if norm(g) != norm(e):
                        raise Violation("request-differs-from-reference", "%s: request after %d fills yields %s, expected %s" % (case, i + 1, short(g), short(e)))
            except (AttributeError, TypeError, IndexError, KeyError) as exc:
                raise Violation("accepted-configuration-fails-under-fill-request",
                                "%s: %s: %s after %d fills" % (case, type(exc).__name__, exc, i + 1))
    return {"nontrivial": True, "classes": ["accepted"]}


# ---- many blocks between two requests ---------------------------------------------------------------

@st.composite
def many_case(draw):
    n = draw(st.sampled_from([1, 1, 2, 3]))
    nblocks = draw(st.sampled_from([1001, 1100, 1500, 2100, 3100]))
    return {"n": n, "mode": draw(st.sampled_from(["in", "out"])), "len": n * nblocks + draw(st.integers(0, n - 1)),
            "kind": draw(st.sampled_from(["fc_len", "fc_store"])), "reset": draw(st.booleans()),
            "driver": draw(st.sampled_from(["fill_request", "split_default_bufsize", "split_none", "run"]))}


def judge_many(case):
    """a block size far below the number of values delivered before one request (a Split with its default
    bufsize of 1000 around FillRequest(bufsize=1)): every value is accounted for, the call returns"""
    cfg = {"kind": case["kind"], "n": case["n"], "mode": case["mode"], "reset": case["reset"], "yor": False}
    flow = [i % 10 for i in range(case["len"])]
    fr = make_fr(cfg)
    exp, _ = ref_run(cfg, flow)
    try:
        if case["driver"] == "fill_request":
            for v in flow:
                fr.fill(v)
            got = list(fr.request())
        elif case["driver"] == "run":
            got = list(fr.run(iter(flow)))
        else:
            sp = Split([fr]) if case["driver"] == "split_default_bufsize" else Split([fr], bufsize=None)
            got = list(sp.run(iter(flow)))
    except RecursionError as e:
        raise Violation("fill-request-fails-with-many-buffered-blocks",
                        "%s, %d values (%s): RecursionError" % (cfg, len(flow), case["driver"]))
    if norm(got) != norm(exp):
        raise Violation("many-blocks-differ-from-run-reference", "%s, %d values (%s): %d results, expected %d" % (
            cfg, len(flow), case["driver"], len(got), len(exp)))
    return {"nontrivial": True, "classes": ["driver:" + case["driver"], "mode:" + case["mode"]]}


CHECKS = [
    Check("run", judge_run, strategy=lambda tier: run_case() if tier != "thorough" else st.one_of(run_case(), run_case(big=True)), quick=2500, thorough=100000,
          rule="16 wrapped element kinds x bufsize 1-5 x buffer mode x reset x yield_on_remainder x flows 0-17, run directly / inside a Sequence / twice; "
               "oracle: results of a fresh element block by block. Non-trivial = >= 2 blocks and a partial last block, or an early-stopping / stateful / sparse element."),
    Check("history", judge_history, strategy=lambda tier: history_case() if tier != "thorough" else st.one_of(history_case(), history_case(big=True)), quick=3000, thorough=120000,
          rule="fill-capable kinds x configuration x generated schedules of fill(v) | request (0-30 ops, final request, lazily or eagerly consumed), each call under a step budget; "
               "oracle: lock-step reference model per request, concatenation == block-wise run reference, completion probe of the remainder, buffer sizes. "
               "Non-trivial = a request at a non-multiple of bufsize or more than bufsize fills between two requests, with more than one block filled."),
    Check("liveness", judge_live, strategy=lambda tier: live_case(), quick=600, thorough=20000,
          rule="weak references to the filled values under generated schedules: buffer_output keeps at most one block of input alive, buffer_input at most the fills since the last request plus a partial block, "
               "after a request fewer than bufsize. Non-trivial = more than two blocks filled."),
    Check("split", judge_split, strategy=lambda tier: split_case(), quick=2500, thorough=100000,
          rule="FillRequest as a bare Split branch, beside a sibling, inside a tuple branch with pre/post elements, in a common-type Split driven by fill/request, and FillRequestSeq.run; Split bufsize 1..2n+1, 1000, None; "
               "oracle: reference model under the schedule Split imposes and (yield_on_remainder off) the run reference on the whole flow. Non-trivial = Split bufsize neither dividing nor divided by the block size, flow longer than a block."),
    Check("many_blocks", judge_many, strategy=lambda tier: many_case(), quick=40, thorough=600,
          rule="1001-3100 blocks of 1-3 values delivered before a single request (directly, through a Split with its default bufsize 1000 or bufsize None, or by run): "
               "results equal the block-wise run reference, no RecursionError. All cases count as non-trivial."),
    Check("constructor", judge_ctor, cases=ctor_cases, exhaustive=True,
          rule="every combination of 18 element kinds x bufsize {1,3,0,-1,1.5,2.0} x buffer_input x buffer_output x reset x yield_on_remainder: accepted iff valid, "
               "LenaTypeError/LenaValueError otherwise; accepted ones run a 7-value flow correctly. All cases count as non-trivial."),
]


from .. import covfuzz  # noqa
CHECKS.append(covfuzz.check(CHECKS, "harness.props.c16", "history", quick=3000, thorough=80000))

"""C01 - Sequence and Source compute the left-to-right composition of their elements."""
import contextlib
import copy
import io

from harness.core import Check, Violation, short
from harness import recipes as R
from hypothesis import strategies as st

from lena.core import Sequence, Source, Split, LenaTypeError, LenaException

PROPERTY = "C01"
LEVEL = "exploration"
RULE = ("element-recipe lists x bracketings x flows; manual left fold of each element's own "
        "stream transformation, bracketing / Source-tail metamorphic equality, junk arguments "
        "rejected with LenaTypeError at construction.")
ASSUMPTIONS = [
    "elements are built fresh from recipes for every run; registry functions are total on the generated values",
    "the documented-but-unimplemented 'single tuple of elements' argument form and re-running a Source built on an iterator are left out",
]


class CallRunNone(object):
    """a callable whose attribute run is None (adapters disable methods this way)"""
    run = None

    def __init__(self, f):
        self.f = f

    def __call__(self, v):
        return self.f(v)


class AccRunNone(R.UserAcc):
    run = None


class Boxed(object):
    """a user class used as a conversion element: Sequence(Boxed) boxes every value"""

    def __init__(self, v):
        self.v = v

    def __eq__(self, other):
        return isinstance(other, Boxed) and self.v == other.v

    def __repr__(self):
        return "Boxed(%r)" % (self.v,)


CLASSES = {"str": str, "boxed": Boxed, "repr_type": type}


class PairsSeq(Sequence):
    """a Sequence subclass with a run of its own: its results in pairs (the last one alone)"""

    def run(self, flow):
        res = list(super(PairsSeq, self).run(flow))
        return iter([("pair", res[i:i + 2]) for i in range(0, len(res), 2)])


class FalsyRun(object):
    """an element with a run method that is false as an object (an empty container)"""

    def __len__(self):
        return 0

    def run(self, flow):
        for v in flow:
            yield ("fr", v)


class StopIter(object):
    """a plain callable from which StopIteration leaks for one value (e.g. next() on an exhausted iterator inside it):
    an error of the element - it must surface as an exception, never be taken for the end of the flow"""

    def __init__(self, k):
        self.k = k

    def __call__(self, v):
        if R.split_val(v)[0] == self.k:
            raise StopIteration
        return v


def build_ext(r):
    if r[0] == "stopit":
        return StopIter(r[1])
    if r[0] == "cls":
        return CLASSES[r[1]]
    if r[0] == "subseq":
        return PairsSeq(*[R.build(x) for x in r[1]])
    if r[0] == "falsyrun":
        return FalsyRun()
    if r[0] == "call_runnone":
        return CallRunNone(R.FUNCS[r[1]])
    if r[0] == "acc_runnone":
        return AccRunNone("n", 1)
    return R.build(r)


def manual_ext(r, flow):
    if r[0] == "stopit":
        f = StopIter(r[1])

        def gen_si():
            for v in flow:
                try:
                    res = f(v)
                except StopIteration:
                    raise RuntimeError("StopIteration raised by an element")
                yield res
        return gen_si()
    if r[0] == "cls":
        return map(CLASSES[r[1]], flow)
    if r[0] in ("subseq", "falsyrun"):
        # the element's own run method
        return build_ext(r).run(flow)
    if r[0] == "call_runnone":
        return map(CallRunNone(R.FUNCS[r[1]]), flow)
    if r[0] == "acc_runnone":
        el = AccRunNone("n", 1)

        def gen():
            for v in flow:
                el.fill(v)
            for res in el.compute():
                yield res
        return gen()
    if r[0] == "seq":
        for x in r[1]:
            flow = manual_ext(x, flow)
        return flow
    return R.manual(r, flow)


def _build_regrouped(r, nesting, style):
    """a top-level Split recipe with every branch regrouped; other recipes as usual"""
    if r[0] != "split":
        return build_ext(r)
    branches = []
    for i, b in enumerate(r[1]):
        if b and b[0] == "bare":
            branches.append(R.build_branch(b))
            continue
        parts = [R.build(x) for x in b]
        k = min(nesting[i % len(nesting)], len(parts))
        if style == "sequence":
            branches.append(Sequence(*parts))
        elif k == 0:
            branches.append(Sequence(Sequence(), *parts))
        else:
            branches.append(Sequence(Sequence(*parts[:k]), *parts[k:]))
    return Split(branches, **r[2])


def build_bracketed(els, br):
    """br: nested list whose leaves are indices into els -> list of args"""
    args = []
    for node in br:
        if isinstance(node, list):
            args.append(Sequence(*build_bracketed(els, node)))
        else:
            args.append(build_ext(els[node]))
    return args


@st.composite
def bracketing(draw, n, depth=2):
    """a nested list over indices 0..n-1 in order, with possible empty groups"""
    def part(idx, d):
        out = []
        i = 0
        while i < len(idx):
            r = draw(st.integers(0, 5))
            if r == 0 and d > 0:
                out.append([])            # an empty Sequence()
            elif r <= 2 and d > 0:
                size = draw(st.integers(1, len(idx) - i))
                out.append(part(idx[i:i + size], d - 1))
                i += size
            else:
                out.append(idx[i])
                i += 1
        if d > 0 and draw(st.integers(0, 4)) == 0:
            out.append([])
        return out
    return part(list(range(n)), depth)


ext_recipe = st.one_of(R.el_recipes(2), R.el_recipes(2), R.el_recipes(1),
                       st.builds(lambda f: ["call_runnone", f], st.sampled_from(sorted(R.FUNCS))),
                       st.just(["acc_runnone"]),
                       st.builds(lambda c: ["cls", c], st.sampled_from(sorted(CLASSES))),
                       st.builds(lambda xs: ["subseq", xs], st.lists(R.el_recipes(0, False, True), max_size=2)),
                       st.just(["falsyrun"]),
                       st.builds(lambda k: ["stopit", k], st.sampled_from([0, 1, 2, 3, None])))


@st.composite
def fold_case(draw):
    els = draw(st.lists(ext_recipe, min_size=draw(st.sampled_from([1, 2, 1, 2, 3, 0])), max_size=6))
    flow = draw(R.flows(8))
    return {"els": els, "flow": flow, "bracket": draw(bracketing(len(els))),
            "flow_as": draw(st.sampled_from(["list", "iter", "tuple"])),
            "source_first": draw(st.sampled_from(["callable", "iterable", "sourceel", "source", "source"])),
            "inner_tail": draw(st.sampled_from([0, 1, 2, len(els), len(els)])),
            "ctx_before_head": draw(st.sampled_from([0, 0, 1, 2])),
            "branch_nesting": draw(st.lists(st.integers(0, 3), min_size=4, max_size=4)),
            "calls": draw(st.integers(1, 2))}


def _drain(thunk):
    out = io.StringIO()
    with contextlib.redirect_stdout(out):
        try:
            it = thunk()
        except LenaException as e:
            return ("exc-at-run", type(e).__name__, [])
        except Exception as e:   # noqa
            return ("exc", type(e).__name__, [])
        return R.drain(it)


def _norm(res):
    """exceptions at run() time and at iteration are equivalent for the fold"""
    if res[0] == "exc-at-run":
        return ("exc", res[1], res[2])
    return res


def _as_flow(js, how):
    vals = R.mkflow(js)
    if how == "iter":
        return iter(vals)
    if how == "tuple":
        return tuple(vals)
    return vals


def _kinds(els):
    return set(R.kind(r) if r[0] not in ("call_runnone", "acc_runnone", "cls", "subseq", "falsyrun", "stopit") else r[0] for r in R.flat(els))


def judge_fold(case):
    els, flowjs = case["els"], case["flow"]
    ref = _norm(_drain(lambda: _fold(els, iter(R.mkflow(flowjs)))))
    got = _norm(_drain(lambda: Sequence(*[build_ext(r) for r in els]).run(_as_flow(flowjs, case["flow_as"]))))
    if got != ref:
        raise Violation("sequence-differs-from-left-fold",
                        "Sequence(%s).run(%s) = %s, manual fold = %s" % (short(els, 400), short(flowjs), short(got, 400), short(ref, 400)))
    br = _norm(_drain(lambda: Sequence(*build_bracketed(els, case["bracket"])).run(_as_flow(flowjs, case["flow_as"]))))
    if br != ref:
        raise Violation("regrouping-changes-result",
                        "bracketing %s of %s on %s gives %s, flat gives %s" % (case["bracket"], short(els, 400), short(flowjs), short(br, 400), short(ref, 400)))
    # regrouping inside Split branches: a branch given as an explicit Sequence (run block by block whatever
    # it contains) is the same branch when its leading elements are grouped into a nested Sequence
    if any(r[0] == "split" and r[1] for r in els) and "branch_nesting" in case:
        res = {}
        for style in ("sequence", "nested"):
            res[style] = _norm(_drain(lambda: Sequence(*[_build_regrouped(r, case["branch_nesting"], style) for r in els]).run(
                _as_flow(flowjs, case["flow_as"]))))
        if res["sequence"] != res["nested"]:
            raise Violation("regrouping-a-split-branch-changes-result",
                            "the Splits in %s with branches Sequence(e1, .., en) on %s give %s, with branches Sequence(Sequence(e1..ek), .., en) (k from %s) they give %s" % (
                                short(els, 400), short(flowjs), short(res["sequence"], 400), case["branch_nesting"], short(res["nested"], 400)))
    # Source: the same elements after a first element producing the flow
    for call_no in range(case["calls"]):
        vals = R.mkflow(flowjs)
        k_in = 0
        if case["source_first"] == "callable":
            first = lambda: iter(R.mkflow(flowjs))
        elif case["source_first"] == "source":
            # the head is itself a Source holding the first k elements (k = all of them: the outer Source has no tail)
            k_in = min(case.get("inner_tail", 0), len(els))
            first = None
        elif case["source_first"] == "iterable":
            first = vals
        else:
            import lena.core
            first = lena.core.SourceEl(vals)
        if case["source_first"] not in ("callable", "source") and call_no > 0:
            break
        import warnings
        with warnings.catch_warnings():
            warnings.simplefilter("ignore")
            args = [build_ext(r) for r in els] if call_no == 0 or True else None
            if case["source_first"] == "source":
                def mk():
                    inner = Source(lambda: iter(R.mkflow(flowjs)), *[build_ext(r) for r in els[:k_in]])
                    return Source(inner, *[build_ext(r) for r in els[k_in:]])()
                src_res = _norm(_drain(mk))
            else:
                # (elements without data - SetContext, StoreContext - may precede the head: they are no part of the flow)
                import lena.meta
                noflow = [lena.meta.SetContext("a", 1), lena.meta.StoreContext()][:case.get("ctx_before_head", 0)]
                src_res = _norm(_drain(lambda: Source(*(noflow + [first] + build_bracketed(els, case["bracket"])))()))
        if src_res != ref:
            raise Violation("source-tail-differs-from-sequence",
                            "Source(first(%s), %s)() = %s, Sequence gives %s" % (
                                case["source_first"], short(els, 400), short(src_res, 400), short(ref, 400)))
    if case["source_first"] == "iterable" and all(R.kind(r) in ("call",) or r[0] in ("filter",) for r in R.flat(els) if r[0] not in ("call_runnone", "acc_runnone")) and not any(r[0] in ("call_runnone", "acc_runnone") for r in els):
        # a Source over a re-iterable container gives the same flow on every call
        with __import__("warnings").catch_warnings():
            __import__("warnings").simplefilter("ignore")
            s = Source(R.mkflow(flowjs), *[build_ext(r) for r in els])
            a = _norm(_drain(lambda: s()))
            b = _norm(_drain(lambda: s()))
        if not _stateless(els):
            pass
        elif a != b:
            raise Violation("source-over-container-not-repeatable",
                            "two calls of the same Source over a list give %s then %s" % (short(a), short(b)))
    # the same Sequence object run a second time on an equal flow gives the same again
    # (streaming elements only: accumulators and counters carry state from run to run by design)
    if all(r[0] in ("map", "var", "varattr", "filter", "slice", "runif", "reverse", "end", "print", "callfc", "seq") for r in R.flat(els)) \
            and all(x[0] in ("map", "var", "filter", "slice") for r in R.flat(els) if r[0] == "runif" for x in r[2]):
        same = Sequence(*build_bracketed(els, case["bracket"]))
        first_run = _norm(_drain(lambda: same.run(_as_flow(flowjs, case["flow_as"]))))
        second_run = _norm(_drain(lambda: same.run(_as_flow(flowjs, "iter"))))
        if first_run != ref or second_run != ref:
            raise Violation("second-run-of-the-same-sequence-differs",
                            "%s on %s: first run %s, second run %s, expected %s" % (
                                short(els, 400), short(flowjs), short(first_run, 300), short(second_run, 300), short(ref, 300)))
    kinds = _kinds(els)
    depth = _depth(case["bracket"])
    nt = (len(R.flat(els)) >= 2 and len(kinds) >= 2 and bool(flowjs)) or depth >= 2
    return {"nontrivial": nt, "classes": ["n=%d" % min(len(els), 6), "bracket-depth=%d" % depth,
                                          "exc" if ref[0] == "exc" else "ok"] + sorted("k:" + k for k in kinds)}


def _stateless(els):
    # maps whose functions mutate contexts in place change the container's values
    for r in R.flat(els):
        if r[0] == "map" and r[1] in ("ctx_mut",):
            return False
        if r[0] in ("var", "varattr"):
            return False
    return True


def _depth(br):
    if not isinstance(br, list):
        return 0
    return 1 + max([_depth(x) for x in br] or [0]) if br else 1


def _fold(els, flow):
    for r in els:
        flow = manual_ext(r, flow)
    return flow


def judge_identity(case):
    vals = R.mkflow(case["flow"])
    for how in ("list", "iter"):
        got = list(Sequence().run(vals if how == "list" else iter(vals)))
        if len(got) != len(vals) or any(a is not b for a, b in zip(got, vals)):
            raise Violation("empty-sequence-not-identity", "%r -> %r" % (vals, got))
    got = list(Sequence(Sequence(), Sequence(Sequence())).run(iter(vals)))
    if len(got) != len(vals) or any(a is not b for a, b in zip(got, vals)):
        raise Violation("nested-empty-sequences-not-identity", "%r -> %r" % (vals, got))
    got = list(Split([]).run(iter(vals)))
    if len(got) != len(vals) or any(a is not b for a, b in zip(got, vals)):
        raise Violation("empty-split-not-identity", "%r -> %r" % (vals, got))
    return {"nontrivial": len(vals) >= 2, "classes": ["identity"]}


# ---- junk arguments ---------------------------------------------------------

class _OnlyFill(object):
    def fill(self, v):
        pass


class _RunAttr(object):
    def __init__(self):
        self.run = 42


class _OnlyCompute(object):
    def compute(self):
        yield 1


def mkjunk(name):
    return {
        "int": 5, "str": "abc", "none": None, "dict": {"a": 1}, "float": 2.5,
        "list_of_elements": [R.f_add1, R.f_dbl], "object": object(),
        "run_not_callable": _RunAttr(), "only_fill": _OnlyFill(),
        "only_compute": _OnlyCompute(), "empty_tuple_in_list": [()],
    }[name]


JUNK = ["int", "str", "none", "dict", "float", "list_of_elements", "object",
        "run_not_callable", "only_fill", "only_compute"]


@st.composite
def junk_case(draw):
    els = draw(st.lists(R.el_recipes(1), max_size=4))
    pos = draw(st.integers(0, len(els)))
    return {"els": els, "pos": pos, "junk": draw(st.sampled_from(JUNK)),
            "where": draw(st.sampled_from(["sequence", "source_tail", "source_first", "source_empty",
                                           "split_branch", "split_nonlist", "split_tuple_member", "nested"]))}


def judge_junk(case):
    els = [R.build(r) for r in case["els"]]
    junk = mkjunk(case["junk"])
    pos = case["pos"]
    args = els[:pos] + [junk] + els[pos:]
    w = case["where"]
    import warnings
    try:
        with warnings.catch_warnings():
            warnings.simplefilter("ignore")
            if w == "sequence":
                obj = Sequence(*args)
            elif w == "nested":
                obj = Sequence(R.f_add1, Sequence(*args))
            elif w == "source_tail":
                obj = Source(lambda: iter([1]), *args)
            elif w == "source_first":
                if case["junk"] in ("str", "dict", "list_of_elements"):
                    # iterables are valid first elements
                    return {"nontrivial": False, "classes": ["iterable-first-skipped"]}
                obj = Source(junk, *els)
            elif w == "source_empty":
                obj = Source()
            elif w == "split_branch":
                if case["junk"] in ("only_fill",):
                    pass
                obj = Split([R.f_add1, junk])
            elif w == "split_nonlist":
                if case["junk"] == "list_of_elements":
                    return {"nontrivial": False, "classes": ["valid-skipped"]}
                obj = Split(junk)
            elif w == "split_tuple_member":
                obj = Split([tuple(args)])
    except LenaTypeError:
        return {"nontrivial": pos > 0, "classes": [w, "junk:" + case["junk"]]}
    except Exception as e:   # noqa
        raise Violation("constructor-raises-other-exception",
                        "%s with %s at position %d: %s: %s" % (w, case["junk"], pos, type(e).__name__, e))
    # accepted: this must not be deferred to the run
    try:
        if w in ("source_tail", "source_first"):
            list(obj())
        elif hasattr(obj, "run"):
            out = io.StringIO()
            with contextlib.redirect_stdout(out):
                list(obj.run(iter([1, 2])))
        ran = "ran"
    except Exception as e:   # noqa
        ran = "failed during the run with %s" % type(e).__name__
    raise Violation("junk-argument-accepted-at-construction",
                    "%s accepted %s at position %d (then %s)" % (w, case["junk"], pos, ran))


CHECKS = [
    Check("fold", judge_fold, strategy=lambda tier: fold_case(), quick=2500, thorough=80000,
          rule="0-6 element recipes (callables, Variable, Filter, Slice, Count, RunIf, Reverse, End, Print, accumulators, nested Sequence, Split, "
               "elements whose run attribute is None, classes used as conversion elements, Variables with data attributes named like methods) x flows of 0-8 bare / (data, context) values as list, tuple or iterator x a random bracketing "
               "(depth<=2, empty groups) x Source with a callable / iterable / SourceEl first element or a Source holding the first k elements as its head; Splits also with their branches given as Sequences, flat and regrouped. "
               "Non-trivial = >=2 elements of >=2 kinds on a non-empty flow, or bracketing depth>=2."),
    Check("identity", judge_identity, strategy=lambda tier: st.fixed_dictionaries({"flow": R.flows(8)}),
          quick=200, thorough=2000,
          rule="Sequence(), nested empty Sequences and Split([]) yield the very input objects."),
    Check("junk", judge_junk, strategy=lambda tier: junk_case(), quick=800, thorough=20000,
          rule="ten kinds of junk at every position of Sequence / nested Sequence / Source (first, tail, no arguments) / Split (branch, tuple member, non-list): "
               "LenaTypeError from the constructor, nothing else, never deferred to the run. Non-trivial = junk at a non-first position."),
]


from .. import covfuzz  # noqa
CHECKS.append(covfuzz.check(CHECKS, "harness.props.c01", "fold", quick=3000, thorough=100000))

"""C03 - Split.run follows its documented block/branch schedule for every branch mix."""
import copy
import itertools

from harness.core import Check, Violation, short
from hypothesis import strategies as st

from lena.core import (Split, Source, Run, Sequence, LenaStopFill, LenaTypeError,
                       LenaValueError, LenaAttributeError)
from lena.flow import Slice, Zip

PROPERTY = "C03"
LEVEL = "exploration"
RULE = ("branch lists (Source, fill/compute, fill/request, plain sequences; tagged outputs) x "
        "bufsize x copy_buf x flows x LenaStopFill index; expected output assembled from "
        "branch-alone semantics following the documented schedule.")
ASSUMPTIONS = [
    "branches are harness-defined elements with tagged outputs (the schedule is judged independently of adapters.FillRequest, which is C16's subject)",
    "sequence branches needing the whole flow (Cache etc.) inside a per-block branch are documented misuse and left out",
]


class Req(object):
    def __init__(self, tag, log):
        self.b, self.tag, self.log = [], tag, log

    def fill(self, v):
        self.log.append((self.tag, "fill"))
        self.b.append(v)

    def request(self):
        self.log.append((self.tag, "request"))
        yield (self.tag, "req", list(self.b))
        self.b = []


class Acc(object):
    def __init__(self, tag, nres, log):
        self.b, self.tag, self.nres, self.log = [], tag, nres, log

    def fill(self, v):
        self.log.append((self.tag, "fill"))
        self.b.append(v)

    def compute(self):
        self.log.append((self.tag, "compute"))
        for i in range(self.nres):
            yield (self.tag, "cmp", i, list(self.b))


class AccOdd(Acc):
    """some of its results are None or false values"""
    ODD = [None, 0, "", False, ()]

    def compute(self):
        self.log.append((self.tag, "compute"))
        for i in range(self.nres):
            yield self.ODD[(i + self.tag) % len(self.ODD)] if i % 2 == 0 else (self.tag, "cmp", i, list(self.b))


class StopAt(object):
    def __init__(self, k):
        self.k, self.i = k, 0

    def fill_into(self, el, v):
        if self.i >= self.k:
            raise LenaStopFill()
        self.i += 1
        el.fill(v)


class Dual(object):
    """a run element that also has fill and compute (like lena.flow.Count)"""

    def __init__(self, tag, log):
        self.tag, self.log, self.n = tag, log, 0

    def run(self, flow):
        self.log.append((self.tag, "run"))
        for v in flow:
            yield (self.tag, "d", v)

    def fill(self, v):
        self.n += 1

    def compute(self):
        yield (self.tag, "dual-computed", self.n)


class RunNoneAttrs(object):
    """a run element carrying the attributes fill, compute and request with the value None
    (lena's adapters switch methods off this way, e.g. FillRequest around a run element)"""
    fill = None
    compute = None
    request = None

    def __init__(self, tag, log):
        self.tag, self.log = tag, log

    def run(self, flow):
        self.log.append((self.tag, "run"))
        for v in flow:
            yield (self.tag, "n", v)


class Post(object):
    def __call__(self, r):
        return ("post", r)


class Pre(object):
    def __call__(self, v):
        return v


def mk_branch(spec, tag, log):
    k = spec[0]
    if k == "source":
        n = spec[1]

        def gen():
            log.append((tag, "call"))
            return iter([(tag, "src", i) for i in range(n)])
        return Source(gen)
    if k == "fc":
        return Acc(tag, spec[1], log)
    if k == "fc_odd":
        return AccOdd(tag, spec[1], log)
    if k == "fc_t":
        return (StopAt(spec[1]), Pre(), Acc(tag, spec[2], log), Post())
    if k == "nested_fc":
        # a Split whose branches are all fill/compute is itself a fill/compute element
        return Split([Acc((tag, j), nres, log) for j, nres in enumerate(spec[1:])])
    if k == "nested_fr":
        return Split([Req((tag, j), log) for j in range(spec[1])])
    if k == "nested_src":
        def mkgen(j):
            def gen():
                log.append(((tag, j), "call"))
                return iter([((tag, j), "src", i) for i in range(2)])
            return gen
        return Split([Source(mkgen(j)) for j in range(spec[1])])
    if k == "fr":
        return Req(tag, log)
    if k == "fr_t":
        return (StopAt(spec[1]), Req(tag, log), Post())
    if k == "map":
        return lambda v: (tag, "map", v)
    if k == "map_t":
        return (lambda v: v, lambda v: (tag, "map", v))
    if k == "filt":
        def run(flow):
            log.append((tag, "run"))
            return ((tag, "f", v) for v in flow if v % 2 == 0)
        return (Run(None, run=run),)
    if k == "exp":
        def run(flow):
            log.append((tag, "run"))
            return (x for v in flow for x in ((tag, "e", v), (tag, "e2", v)))
        return (Run(None, run=run),)
    if k == "tail":
        def run(flow):
            log.append((tag, "run"))
            return itertools.chain(((tag, "t", v) for v in flow), [(tag, "end")])
        return (Run(None, run=run),)
    if k == "slice":
        return Sequence(Slice(spec[1]), lambda v: (tag, "s", v))
    if k == "run_none":
        el = RunNoneAttrs(tag, log)
        return el if spec[1] else (el,)
    if k == "seq_dual":
        # an explicit Sequence is run block by block whatever methods its elements have besides run
        return Sequence(Dual(tag, log))
    raise AssertionError(spec)


def kind_of(spec):
    return {"source": "source", "fc": "fc", "fc_odd": "fc", "fc_t": "fc", "fr": "fr", "fr_t": "fr",
            "nested_fc": "fc", "nested_fr": "fr"}.get(spec[0], "seq")


class RefBranch(object):
    """Branch-alone semantics written directly (no lena code)."""

    def __init__(self, spec, tag):
        self.spec, self.tag = spec, tag
        self.kind = kind_of(spec)
        self.buf = []
        self.nfill = 0
        self.stop = None
        if spec[0] == "fc_t":
            self.stop = spec[1]
        if spec[0] == "fr_t":
            self.stop = spec[1]

    def source_out(self):
        return [(self.tag, "src", i) for i in range(self.spec[1])]

    def fill(self, v):
        """returns False if the branch signals LenaStopFill"""
        if self.stop is not None and self.nfill >= self.stop:
            return False
        self.nfill += 1
        self.buf.append(v)
        return True

    def compute(self):
        if self.spec[0] == "nested_fc":
            return [((self.tag, j), "cmp", i, list(self.buf)) for j, nres in enumerate(self.spec[1:]) for i in range(nres)]
        nres = self.spec[1] if self.spec[0] in ("fc", "fc_odd") else self.spec[2]
        res = [(self.tag, "cmp", i, list(self.buf)) for i in range(nres)]
        if self.spec[0] == "fc_odd":
            res = [AccOdd.ODD[(i + self.tag) % len(AccOdd.ODD)] if i % 2 == 0 else r for i, r in enumerate(res)]
        if self.spec[0] == "fc_t":
            res = [("post", r) for r in res]
        return res

    def request(self):
        if self.spec[0] == "nested_fr":
            res = [((self.tag, j), "req", list(self.buf)) for j in range(self.spec[1])]
            self.buf = []
            return res
        r = (self.tag, "req", list(self.buf))
        self.buf = []
        return [("post", r)] if self.spec[0] == "fr_t" else [r]

    def run(self, block):
        k, tag = self.spec[0], self.tag
        if k in ("map", "map_t"):
            return [(tag, "map", v) for v in block]
        if k == "filt":
            return [(tag, "f", v) for v in block if v % 2 == 0]
        if k == "exp":
            return [x for v in block for x in ((tag, "e", v), (tag, "e2", v))]
        if k == "tail":
            return [(tag, "t", v) for v in block] + [(tag, "end")]
        if k == "slice":
            return [(tag, "s", v) for v in block[:self.spec[1]]]
        if k == "seq_dual":
            return [(tag, "d", v) for v in block]
        if k == "run_none":
            return [(tag, "n", v) for v in block]
        raise AssertionError(k)


def model(specs, bufsize, flow, refs=None):
    """refs: the reference branches of an earlier run of the same Split (their state continues)"""
    if not specs:
        return list(flow), {}
    if refs is None:
        refs = [RefBranch(s, i) for i, s in enumerate(specs)]
    model.last_refs = refs
    active = list(range(len(specs)))
    out = []
    calls = dict((i, 0) for i in range(len(specs)))   # finalisations per branch
    if bufsize:
        blocks = [flow[i:i + bufsize] for i in range(0, len(flow), bufsize)]
    else:
        blocks = [flow] if flow else []
    for block in blocks:
        for i in list(active):
            r = refs[i]
            if r.kind == "source":
                out.extend(r.source_out())
                calls[i] += 1
                active.remove(i)
            elif r.kind == "fc":
                stopped = False
                for v in block:
                    if not r.fill(v):
                        stopped = True
                        break
                if stopped:
                    out.extend(r.compute())
                    calls[i] += 1
                    active.remove(i)
            elif r.kind == "fr":
                stopped = False
                for v in block:
                    if not r.fill(v):
                        stopped = True
                        break
                out.extend(r.request())
                calls[i] += 1
                if stopped:
                    active.remove(i)
            else:
                out.extend(r.run(block))
                calls[i] += 1
    for i in active:
        r = refs[i]
        if r.kind == "source":
            out.extend(r.source_out())
            calls[i] += 1
        elif r.kind == "fc":
            out.extend(r.compute())
            calls[i] += 1
        elif r.kind == "fr":
            if not flow:
                out.extend(r.request())
                calls[i] += 1
        else:
            if not flow:
                out.extend(r.run([]))
                calls[i] += 1
    return out, calls


spec_strat = st.one_of(
    st.builds(lambda n: ["source", n], st.integers(0, 2)),
    st.builds(lambda n: ["fc", n], st.integers(0, 2)),
    st.builds(lambda n: ["fc_odd", n], st.integers(1, 3)),
    st.builds(lambda k, n: ["fc_t", k, n], st.one_of(st.integers(0, 10), st.just(99)), st.integers(1, 2)),
    st.just(["fr"]),
    st.builds(lambda k: ["fr_t", k], st.one_of(st.integers(0, 10), st.just(99))),
    st.builds(lambda ns: ["nested_fc"] + ns, st.lists(st.integers(0, 2), min_size=1, max_size=3)),
    st.builds(lambda n: ["nested_fr", n], st.integers(1, 3)),
    st.just(["map"]), st.just(["map_t"]), st.just(["filt"]), st.just(["exp"]), st.just(["tail"]),
    st.builds(lambda k: ["slice", k], st.integers(0, 3)),
    st.just(["seq_dual"]),
    st.builds(lambda bare: ["run_none", bare], st.integers(0, 1)),
)


@st.composite
def run_case(draw, big=False):
    specs = draw(st.lists(spec_strat, min_size=draw(st.sampled_from([0, 1, 1, 2, 2, 2])), max_size=6 if big else 4))
    n = draw(st.sampled_from(list(range(4, 11)) * 3 + [3, 3, 3, 2, 1, 0, 0, 0])) if not big else draw(st.integers(8, 30))
    bufsize = draw(st.one_of(st.integers(1, 4), st.integers(1, 4), st.integers(1, 7 if big else 3), st.sampled_from([n + 1, 1000, None])))
    # LenaStopFill indices mostly inside the flow (so that stops happen in every block, also later ones)
    lo = bufsize if (bufsize and bufsize < n and draw(st.integers(0, 3))) else 0   # most of them in a later block
    specs = [[s[0], draw(st.integers(lo, n))] + s[2:] if s[0] in ("fc_t", "fr_t") and n and draw(st.integers(0, 3)) else s
             for s in specs]
    return {"specs": specs, "n": n, "bufsize": bufsize, "copy_buf": draw(st.booleans()),
            "flow_as": draw(st.sampled_from(["iter", "list"])),
            "again": draw(st.sampled_from([None, None, 0, 2, 5]))}


def judge_run(case):
    specs, n, bufsize = case["specs"], case["n"], case["bufsize"]
    flow = list(range(n))
    log = []
    try:
        sp = Split([mk_branch(s, i, log) for i, s in enumerate(specs)],
                   bufsize=bufsize, copy_buf=case["copy_buf"])
    except (LenaTypeError, LenaValueError) as e:
        raise Violation("split-rejects-valid-arguments", "%s: %s" % (short(case), e))
    got = list(sp.run(iter(flow) if case["flow_as"] == "iter" else list(flow)))
    exp, calls = model(specs, bufsize, flow)
    if got != exp:
        raise Violation("split-run-differs-from-documented-schedule",
                        "Split(%s, bufsize=%r).run(range(%d)):\n got %s\n exp %s" % (specs, bufsize, n, short(got, 700), short(exp, 700)))
    # invocation counters: compute / __call__ exactly once per branch;
    # on an empty flow every branch is invoked exactly once
    for i, s in enumerate(specs):
        kd = kind_of(s)
        if kd == "source":
            c = log.count((i, "call"))
            if c != 1:
                raise Violation("source-branch-call-count", "branch %d called %d times; %s" % (i, c, short(case)))
        elif s[0] == "nested_fc":
            for j in range(len(s) - 1):
                c = log.count(((i, j), "compute"))
                if c != 1:
                    raise Violation("fill-compute-branch-compute-count", "nested branch %d.%d computed %d times; %s" % (i, j, c, short(case)))
        elif s[0] == "nested_fr":
            for j in range(s[1]):
                c = log.count(((i, j), "request"))
                if c != calls[i]:
                    raise Violation("fill-request-branch-request-count", "nested branch %d.%d: request called %d times, expected %d; %s" % (i, j, c, calls[i], short(case)))
        elif kd == "fc":
            c = log.count((i, "compute"))
            if c != 1:
                raise Violation("fill-compute-branch-compute-count", "branch %d computed %d times; %s" % (i, c, short(case)))
        elif kd == "fr":
            c = log.count((i, "request"))
            if c != calls[i]:
                raise Violation("fill-request-branch-request-count", "branch %d: request called %d times, expected %d; %s" % (i, c, calls[i], short(case)))
        elif s[0] in ("filt", "exp", "tail", "seq_dual", "run_none"):
            c = log.count((i, "run"))
            if c != calls[i]:
                raise Violation("sequence-branch-run-count", "branch %d: run called %d times, expected %d; %s" % (i, c, calls[i], short(case)))
    # the same Split object run again: every branch takes part again (a Source is called again,
    # a branch that stopped is filled again), the accumulators continue from their state
    if case.get("again") is not None:
        refs = model.last_refs if specs else None
        flow2 = list(range(100, 100 + case["again"]))
        got2 = list(sp.run(iter(flow2)))
        exp2, _ = model(specs, bufsize, flow2, refs)
        if got2 != exp2:
            raise Violation("second-run-of-the-same-split-differs",
                            "Split(%s, bufsize=%r) run on range(%d) and then on %s:\n second run gives %s\n expected %s" % (
                                specs, bufsize, n, flow2, short(got2, 600), short(exp2, 600)))
    kinds = set(kind_of(s) for s in specs)
    nblocks = (n + bufsize - 1) // bufsize if bufsize else (1 if n else 0)
    stop_late = any(s[0] in ("fc_t", "fr_t") and bufsize and bufsize <= s[1] < n for s in specs)
    nt = (len(specs) >= 2 and len(kinds) >= 2 and nblocks >= 2) or stop_late or (n == 0 and len(specs) >= 2)
    return {"nontrivial": nt,
            "classes": ["branches=%d" % len(specs), "blocks=%d" % min(nblocks, 4),
                        "stop-in-later-block" if stop_late else "no-late-stop",
                        "empty-flow" if n == 0 else "nonempty"] + sorted("k:" + k for k in kinds)}


@st.composite
def common_case(draw):
    typ = draw(st.sampled_from(["fc", "fr", "source", "mixed", "zip_fc", "zip_fr"]))
    if typ in ("fc", "zip_fc"):
        specs = draw(st.lists(st.one_of(st.builds(lambda n: ["fc", n], st.integers(0, 3)),
                                        st.builds(lambda n: ["fc_odd", n], st.integers(1, 4)),
                                        st.builds(lambda n: ["fc_t", 99, n], st.integers(1, 3)),
                                        st.builds(lambda ns: ["nested_fc"] + ns, st.lists(st.integers(0, 3), min_size=1, max_size=2))),
                              min_size=1, max_size=3))
    elif typ in ("fr", "zip_fr"):
        specs = draw(st.lists(st.one_of(st.just(["fr"]), st.just(["fr_t", 99]), st.builds(lambda n: ["nested_fr", n], st.integers(1, 2))),
                              min_size=1, max_size=3))
    elif typ == "source":
        specs = draw(st.lists(st.builds(lambda n: ["source", n], st.integers(0, 3)), min_size=1, max_size=3))
    else:
        specs = [["fc", 1], draw(st.sampled_from([["fr"], ["source", 1], ["map"]]))]
    return {"type": typ, "specs": specs, "n": draw(st.integers(0, 6)),
            "request_after": draw(st.lists(st.integers(0, 6), max_size=3)),
            "fields": draw(st.booleans()), "copy_buf": draw(st.booleans())}


def judge_common(case):
    typ, specs, n = case["type"], case["specs"], case["n"]
    log = []
    branches = [mk_branch(s, i, log) for i, s in enumerate(specs)]
    refs = [RefBranch(s, i) for i, s in enumerate(specs)]
    flow = list(range(n))
    if typ == "mixed":
        sp = Split(branches)
        try:
            list(sp())
        except LenaAttributeError:
            pass
        else:
            raise Violation("mixed-split-callable", "%s" % short(case))
        if hasattr(sp, "compute") and callable(getattr(sp, "compute", None)) and hasattr(sp, "fill"):
            raise Violation("mixed-split-offers-fill-compute", "%s" % short(case))
        return {"nontrivial": False, "classes": [typ]}
    if typ == "source":
        sp = Split(branches)
        del log[:]
        it = sp()
        if log:
            raise Violation("split-call-works-before-demand", "%s: events %s before the first result was asked for" % (specs, short(log)))
        got = []
        for x in it:
            # a Source is called when it is reached: when its first result is handed over, exactly the Sources
            # up to its own have been called (empty ones in between included)
            called = [t for t, what in log if what == "call"]
            if called != list(range(x[0] + 1)):
                raise Violation("split-call-calls-a-source-before-it-is-reached",
                                "%s: when result %s arrives the Sources called so far are %s" % (specs, short(x), called))
            got.append(x)
        exp = [x for r in refs for x in r.source_out()]
        if got != exp:
            raise Violation("split-call-differs", "%s: %s expected %s" % (specs, short(got), short(exp)))
        return {"nontrivial": len(specs) >= 2, "classes": [typ]}
    if typ == "fc":
        sp = Split(branches, copy_buf=case["copy_buf"])
        for v in flow:
            sp.fill(v)
            for r in refs:
                r.fill(v)
        got = list(sp.compute())
        exp = [x for r in refs for x in r.compute()]
        if got != exp:
            raise Violation("split-fill-compute-differs", "%s: %s expected %s" % (specs, short(got), short(exp)))
        return {"nontrivial": len(specs) >= 2 and n >= 1, "classes": [typ]}
    if typ == "fr":
        sp = Split(branches, copy_buf=case["copy_buf"])
        got, exp = [], []
        for i, v in enumerate(flow):
            sp.fill(v)
            for r in refs:
                r.fill(v)
            if i in case["request_after"]:
                got.extend(sp.request())
                exp.extend(x for r in refs for x in r.request())
        got.extend(sp.request())
        exp.extend(x for r in refs for x in r.request())
        if got != exp:
            raise Violation("split-fill-request-differs", "%s: %s expected %s" % (specs, short(got), short(exp)))
        return {"nontrivial": len(specs) >= 2 and n >= 1, "classes": [typ]}
    # Zip
    fields = ["f%d" % i for i in range(len(specs))] if case["fields"] else []
    z = Zip(branches, fields=fields) if fields else Zip(branches)
    for v in flow:
        z.fill(v)
        for r in refs:
            r.fill(v)
    if typ == "zip_fc":
        got = list(z.compute())
        per = [r.compute() for r in refs]
    else:
        got = list(z.request())
        per = [r.request() for r in refs]
    m = min(len(p) for p in per)
    exp = [tuple(p[i] for p in per) for i in range(m)]
    got_plain = [tuple(g) for g in got]
    if repr(got_plain) != repr(exp):
        raise Violation("zip-differs-from-tuples-of-ith-results",
                        "Zip(%s): %s expected %s" % (specs, short(got, 500), short(exp, 500)))
    if fields:
        for g in got:
            if tuple(getattr(g, "_fields", ())) != tuple(fields):
                raise Violation("zip-fields", "%r" % (g,))
    lens = [len(p) for p in per]
    return {"nontrivial": len(specs) >= 2 and m >= 2, "classes": [typ, "min=%d max=%d" % (m, max(lens))]}


def strat_invalid(tier):
    return st.fixed_dictionaries({"which": st.sampled_from(
        ["nonlist", "bufsize0", "bufsize_neg", "bufsize_float", "junk_branch", "zip_empty", "zip_mixed", "zip_fields"])})


def judge_invalid(case):
    w = case["which"]
    log = []
    try:
        if w == "nonlist":
            Split((lambda v: v,))
        elif w == "bufsize0":
            Split([lambda v: v], bufsize=0)
        elif w == "bufsize_neg":
            Split([lambda v: v], bufsize=-2)
        elif w == "bufsize_float":
            Split([lambda v: v], bufsize=1.5)
        elif w == "junk_branch":
            Split([lambda v: v, 5])
        elif w == "zip_empty":
            Zip([])
        elif w == "zip_mixed":
            Zip([Acc(0, 1, log), Req(1, log)])
        elif w == "zip_fields":
            Zip([Acc(0, 1, log), Acc(1, 1, log)], fields=["a"])
    except (LenaTypeError, LenaValueError):
        return {"nontrivial": True, "classes": [w]}
    raise Violation("invalid-split-arguments-accepted", w)


CHECKS = [
    Check("run_schedule", judge_run, strategy=lambda tier: run_case() if tier != "thorough" else st.one_of(run_case(), run_case(big=True)), quick=8000, thorough=100000,
          rule="0-4 branches from fourteen tagged kinds (Source, bare and tuple fill/compute, nested Splits of one common type, bare and tuple fill/request with LenaStopFill at index k, "
               "map, filter, 1:n expander, per-block tail, Slice sequence) x bufsize in {1..4, n+1, 1000, None} x copy_buf x flows 0..10; exact output list "
               "and invocation counts. Non-trivial = >=2 branches of >=2 kinds over >=2 blocks, a LenaStopFill in a later block, or an empty flow with >=2 branches."),
    Check("common_type", judge_common, strategy=lambda tier: common_case(), quick=3000, thorough=30000,
          rule="all-fill/compute, all-fill/request (requests at arbitrary points), all-Source Splits, mixed Split() call, Zip of 1-3 branches with/without fields."),
    Check("invalid", judge_invalid, strategy=strat_invalid, quick=60, thorough=300,
          rule="invalid arguments raise LenaTypeError/LenaValueError."),
]


from .. import covfuzz  # noqa
CHECKS.append(covfuzz.check(CHECKS, "harness.props.c03", "run_schedule", quick=3000, thorough=100000))

"""C05 - An analysis gives the same result whether it is driven by run or by fill."""
import contextlib
import copy
import io
import itertools

from harness.core import Check, Violation, short
from harness import recipes as R
from hypothesis import strategies as st

import lena.core
from lena.core import (Sequence, Split, FillComputeSeq, FillSeq, LenaStopFill,
                       LenaTypeError, Call, Run, FillInto, FillCompute, SourceEl)

PROPERTY = "C05"
LEVEL = "exploration"
RULE = ("chains pre* acc post* x flows x bufsize: Sequence.run vs Split branch vs explicit "
        "fill...compute (FillComputeSeq and FillSeq); exhaustive adapter x element kind x "
        "method-name matrix.")
ASSUMPTIONS = [
    "Count as a pre-element and negative Slice in fill mode are left out (documented to differ / impossible)",
    "non-string method names are left out (documented 'may raise')",
]


@st.composite
def chain_case(draw):
    pre = draw(st.lists(R.fillable_recipes(), max_size=3))
    acc = [draw(st.sampled_from(R.ACCS))]
    post = draw(st.lists(R.post_recipes(), max_size=2))
    flow = draw(R.flows(10))
    n = len(flow)
    bufsizes = draw(st.lists(st.one_of(st.integers(1, max(1, n + 1)), st.sampled_from([1000, None])),
                             min_size=1, max_size=3, unique=True))
    return {"pre": pre, "acc": acc, "post": post, "flow": flow, "bufsizes": bufsizes,
            "second_branch": draw(st.sampled_from(["none", "map_after", "stop_before", "fc_before", "stop_after", "mut_before"])),
            "stop_k": draw(st.integers(0, 4))}


def _quiet(thunk):
    out = io.StringIO()
    with contextlib.redirect_stdout(out):
        return thunk()


def _other(v):
    return ("OTHER", R.split_val(v)[0])


def _mutate_in_place(v):
    d, c = R.split_val(v)
    if isinstance(d, list):
        d.append("changed-by-another-branch")
    if c is not None:
        c["changed-by-another-branch"] = True
    return v


class _OtherAcc(object):
    def __init__(self):
        self.n = 0

    def fill(self, v):
        self.n += 1

    def compute(self):
        yield ("OTHER", self.n)


def judge_chain(case):
    chain_r = case["pre"] + [case["acc"]] + case["post"]
    flowjs = case["flow"]

    def build_chain():
        return [R.build(r) for r in chain_r]

    ref = _quiet(lambda: list(Sequence(*build_chain()).run(iter(R.mkflow(flowjs)))))
    results = {"sequence": ref}
    for b in case["bufsizes"]:
        branches = [tuple(build_chain())]
        sb = case["second_branch"]
        if sb == "map_after":
            branches.append(_other)
        elif sb == "stop_before":
            from lena.flow import Slice
            branches.insert(0, (Slice(case["stop_k"]), _OtherAcc()))
        elif sb == "stop_after":
            from lena.flow import Slice
            branches.append((Slice(case["stop_k"]), _OtherAcc()))
        elif sb == "fc_before":
            branches.insert(0, _OtherAcc())
        elif sb == "mut_before":
            # an earlier branch that changes what it is handed in place (bare mutable data and contexts)
            branches.insert(0, (_mutate_in_place, _OtherAcc()))
        got = _quiet(lambda: list(Split(branches, bufsize=b).run(iter(R.mkflow(flowjs)))))
        got = [g for g in got if not (isinstance(g, tuple) and len(g) == 2 and g[0] == "OTHER")]
        if got != ref:
            raise Violation("split-branch-differs-from-sequence",
                            "chain %s on %s: Split(bufsize=%r%s) gives %s, Sequence gives %s" % (
                                short(chain_r, 400), short(flowjs), b,
                                ", second branch %s" % case["second_branch"], short(got, 400), short(ref, 400)))

    def drive_fill(filler, finish):
        for v in R.mkflow(flowjs):
            try:
                filler(v)
            except LenaStopFill:
                break
        return list(finish())

    def fcs():
        fc = FillComputeSeq(*build_chain())
        return drive_fill(fc.fill, fc.compute)
    got = _quiet(fcs)
    if got != ref:
        raise Violation("fill-compute-seq-differs-from-sequence",
                        "chain %s on %s: FillComputeSeq fill*;compute gives %s, Sequence gives %s" % (
                            short(chain_r, 400), short(flowjs), short(got, 400), short(ref, 400)))

    def fs():
        els = build_chain()
        npre = len(case["pre"])
        acc = els[npre]
        fseq = FillSeq(*els[:npre + 1])
        return drive_fill(fseq.fill, lambda: Sequence(*els[npre + 1:]).run(acc.compute()))
    got = _quiet(fs)
    if got != ref:
        raise Violation("fill-seq-differs-from-sequence",
                        "chain %s on %s: FillSeq fill*; compute; post gives %s, Sequence gives %s" % (
                            short(chain_r, 400), short(flowjs), short(got, 400), short(ref, 400)))
    n = len(flowjs)
    small_buf = any(b is not None and b < n for b in case["bufsizes"])
    has_stop = any(r[0] == "slice" for r in case["pre"])
    nt = (len(case["pre"]) >= 1 and len(case["post"]) >= 1 and n >= 2 and small_buf) or (has_stop and n >= 2)
    return {"nontrivial": nt,
            "classes": ["pre=%d" % len(case["pre"]), "post=%d" % len(case["post"]), "acc=" + case["acc"][0],
                        "slice-pre" if has_stop else "no-slice", "small-bufsize" if small_buf else "big-bufsize"]}


# ---- adapters matrix --------------------------------------------------------

class KCallable(object):
    def __call__(self, v):
        return ("c", v)


class KCustom(object):
    """methods with custom names for every adapter"""
    attr = 42

    def my_call(self, v):
        return ("mc", v)

    def my_run(self, flow):
        for v in flow:
            yield ("mr", v)

    def my_fill_into(self, el, v):
        el.fill(("mfi", v))

    def my_fill(self, v):
        self.vals = getattr(self, "vals", []) + [v]

    def my_compute(self):
        yield ("mcomp", list(getattr(self, "vals", [])))

    def my_source(self):
        return iter([("ms", 1), ("ms", 2)])

    def request(self):
        # a second candidate with another meaning: must not be preferred to a method named explicitly
        yield ("request-of-custom",)


class KRun(object):
    def run(self, flow):
        for v in flow:
            yield ("r", v)
            yield ("r2", v)


class KRunBreak(KRun):
    _can_break_flow = True


class KRunBreakFalse(KRun):
    """the attribute is present with a false value (its presence is what counts)"""
    _can_break_flow = False


class KFC(object):
    def __init__(self):
        self.vals = []

    def fill(self, v):
        self.vals.append(v)

    def compute(self):
        yield ("fc", list(self.vals))


class KFR(object):
    def __init__(self):
        self.vals = []

    def fill(self, v):
        self.vals.append(v)

    def request(self):
        yield ("fr", list(self.vals))


class KCallFC(KFC):
    """several candidate methods: callable and fill/compute (no run)"""

    def __call__(self, v):
        return ("c", v)


class KFCFR(KFC):
    """fill with compute and request of different meanings"""

    def request(self):
        yield ("request", len(self.vals))


class KFillInto(object):
    def fill_into(self, el, v):
        el.fill(("fi", v))


class KCallFillInto(KFillInto):
    """several candidate methods: callable and fill_into (FillInto prefers fill_into)"""

    def __call__(self, v):
        return ("c", v)


class KCallRunAttr(KCallable):
    """a callable whose attribute run is data, not a method"""
    run = 2015
    fill = "no"
    fill_into = 1


class KRunAttr(object):
    """attributes named like methods that are not callable: not an element at all"""
    run = 2015
    fill = 7
    compute = 0
    fill_into = 1
    request = None


class KCustomFalsy(KCustom):
    """the same element, false as an object (an empty container): an adapter must test for None, not truth"""

    def __len__(self):
        return 0


class KRunFalsy(KRun):
    def __bool__(self):
        return False


class KFCFalsy(KFC):
    def __len__(self):
        return 0


class Collector(object):
    def __init__(self):
        self.got = []

    def fill(self, v):
        self.got.append(v)


def _genfunc(flow):
    for v in flow:
        yield ("g", v)


KINDS = {
    "callable_obj": KCallable, "custom": KCustom, "run_el": KRun, "run_el_break": KRunBreak, "run_el_break_false": KRunBreakFalse,
    "fc": KFC, "fr": KFR, "fill_into_el": KFillInto, "iterable": lambda: [7, 8, 9],
    "lambda": lambda: (lambda v: ("l", v)), "none": lambda: None, "junk": lambda: 5,
    "genfunc": lambda: _genfunc, "call_fc": KCallFC, "fc_fr": KFCFR,
    "custom_falsy": KCustomFalsy, "run_el_falsy": KRunFalsy, "fc_falsy": KFCFalsy,
    "call_fill_into": KCallFillInto, "call_run_attr": KCallRunAttr, "run_attr": KRunAttr,
}
ADAPTERS = ["Call", "Run", "FillInto", "FillCompute", "SourceEl"]
NAMES = ["default", "custom", "missing", "noncallable"]
VALS = [1, (2, {"a": 1}), "s"]


def cases_matrix(tier):
    for a, k, nm in itertools.product(ADAPTERS, sorted(KINDS), NAMES):
        yield {"adapter": a, "kind": k, "name": nm}


def judge_matrix(case):
    a, k, nm = case["adapter"], case["kind"], case["name"]
    el = KINDS[k]()
    twin = KINDS[k]()
    custom = {"Call": "my_call", "Run": "my_run", "FillInto": "my_fill_into",
              "FillCompute": "my_fill", "SourceEl": "my_source"}[a]
    name = {"default": None, "custom": custom, "missing": "no_such_method", "noncallable": "attr"}[nm]
    has_custom = k in ("custom", "custom_falsy")
    # expected: ('ok', checker) or 'reject'
    expect = "reject"
    if a == "Call":
        if nm == "default":
            if callable(el):
                if k == "genfunc":
                    expect = lambda ad: list(ad(iter(VALS))) == list(twin(iter(VALS)))
                else:
                    expect = lambda ad: [ad(v) for v in VALS] == [twin(v) for v in VALS]
        elif nm == "custom" and has_custom:
            expect = lambda ad: [ad(v) for v in VALS] == [twin.my_call(v) for v in VALS]
    elif a == "Run":
        if nm == "default":
            if callable(getattr(el, "run", None)):
                expect = lambda ad: list(ad.run(iter(VALS))) == list(twin.run(iter(VALS)))
            elif callable(el):
                if k == "genfunc":
                    expect = "skip"   # a generator function is not a value transformation
                else:
                    expect = lambda ad: list(ad.run(iter(VALS))) == [twin(v) for v in VALS]
            elif callable(getattr(el, "fill", None)) and callable(getattr(el, "compute", None)):
                def chk(ad):
                    for v in VALS:
                        twin.fill(v)
                    return list(ad.run(iter(VALS))) == list(twin.compute())
                expect = chk
        elif nm == "custom" and has_custom:
            expect = lambda ad: list(ad.run(iter(VALS))) == list(twin.my_run(iter(VALS)))
        elif k == "none" and nm == "custom":
            pass
    elif a == "FillInto":
        def filled(ad):
            c = Collector()
            for v in VALS:
                ad.fill_into(c, v)
            return c.got
        if nm == "default":
            if callable(getattr(el, "fill_into", None)):
                expect = lambda ad: filled(ad) == [("fi", v) for v in VALS]
            elif callable(el):
                if k == "genfunc":
                    expect = "skip"
                else:
                    expect = lambda ad: filled(ad) == [twin(v) for v in VALS]
            elif callable(getattr(el, "run", None)) and hasattr(el, "_can_break_flow"):
                expect = lambda ad: filled(ad) == [r for v in VALS for r in twin.run([v])]
        elif nm == "custom" and has_custom:
            expect = lambda ad: filled(ad) == [("mfi", v) for v in VALS]
    elif a == "FillCompute":
        if nm == "default":
            if callable(getattr(el, "fill", None)) and (callable(getattr(el, "compute", None)) or callable(getattr(el, "request", None))):
                def chk(ad):
                    for v in VALS:
                        ad.fill(v)
                        twin.fill(v)
                    fin = twin.compute if hasattr(twin, "compute") else twin.request
                    return list(ad.compute()) == list(fin())
                expect = chk
        elif nm == "custom" and has_custom:
            def chk(ad):
                for v in VALS:
                    ad.fill(v)
                return list(ad.compute()) == [("mcomp", list(VALS))]
            expect = chk
    elif a == "SourceEl":
        if nm == "default":
            if callable(el):
                if k in ("lambda", "callable_obj", "genfunc"):
                    expect = "skip"     # callable needing an argument: not a source
                else:
                    expect = "skip"
            elif hasattr(el, "__iter__"):
                expect = lambda ad: list(ad()) == list(twin) and list(ad()) == list(twin)
        elif nm == "custom" and has_custom:
            expect = lambda ad: list(ad()) == list(twin.my_source())
    if expect == "skip":
        return {"nontrivial": False, "classes": ["skipped"]}
    try:
        if a == "Call":
            ad = Call(el) if name is None else Call(el, call=name)
        elif a == "Run":
            ad = Run(el) if name is None else Run(el, run=name)
        elif a == "FillInto":
            ad = FillInto(el) if name is None else FillInto(el, fill_into=name)
        elif a == "FillCompute":
            if name is None:
                ad = FillCompute(el)
            elif nm == "custom":
                ad = FillCompute(el, fill="my_fill", compute="my_compute")
            else:
                ad = FillCompute(el, fill=name)
        else:
            ad = SourceEl(el) if name is None else SourceEl(el, call=name)
    except LenaTypeError:
        if expect != "reject":
            raise Violation("adapter-rejects-valid-element",
                            "%s(%s, name=%s) raised LenaTypeError" % (a, k, nm))
        return {"nontrivial": True, "classes": ["rejected"]}
    if expect == "reject":
        # Run(None, run=<name>) with a string name and el None: run=name is
        # taken as the function itself -- documented only for functions
        if a == "Run" and k == "none" and nm != "default":
            return {"nontrivial": False, "classes": ["run-none-skipped"]}
        raise Violation("adapter-accepts-invalid-element",
                        "%s(%s, name=%s) was accepted" % (a, k, nm))
    try:
        same = expect(ad)
    except Exception as e:   # noqa  (the twin's own methods are total on VALS: the adapter's method is what failed)
        raise Violation("adapter-changes-meaning-of-wrapped-method",
                        "%s(%s, name=%s): using the adapter raised %s: %s" % (a, k, nm, type(e).__name__, e))
    if not same:
        raise Violation("adapter-changes-meaning-of-wrapped-method",
                        "%s(%s, name=%s)" % (a, k, nm))
    return {"nontrivial": True, "classes": ["accepted"]}


def strat_adapter_misc(tier):
    return st.fixed_dictionaries({"xs": st.lists(st.integers(0, 5), max_size=5),
                                  "calls": st.integers(1, 3), "kind": st.sampled_from(["list", "tuple", "range"]),
                                  "partial": st.integers(0, 3)})


def judge_adapter_misc(case):
    xs = case["xs"]
    src = {"list": list(xs), "tuple": tuple(xs), "range": range(len(xs))}[case["kind"]]
    ad = SourceEl(src)
    it = iter(ad())
    for _ in range(case["partial"]):
        next(it, None)
    for _ in range(case["calls"]):
        got = list(ad())
        if got != list(src):
            raise Violation("SourceEl-iterable-not-repeatable",
                            "SourceEl(%r)() gave %r on a later call" % (src, got))
    # elements that are callable and iterable at once: a lena Source (callable without arguments, iterable over
    # its elements) and a user data set (iterates over its file names, reads the data when called): the
    # meaning of the wrapped element as a source is its call
    class DataSet(object):
        def __iter__(self):
            return iter(["file_a", "file_b"])

        def __call__(self):
            return iter(list(xs))
    import warnings
    with warnings.catch_warnings():
        warnings.simplefilter("ignore")
        both = [DataSet(), lena.core.Source(lambda: iter(list(xs))), lena.core.Source(lambda: iter(list(xs)), lambda v: v)]
    for el in both:
        try:
            got = list(SourceEl(el)())
        except LenaTypeError:
            raise Violation("adapter-rejects-valid-element", "SourceEl(%s) raised LenaTypeError" % type(el).__name__)
        if got != list(xs):
            raise Violation("adapter-changes-meaning-of-wrapped-method",
                            "SourceEl(%s)() gives %s, the element called gives %s" % (type(el).__name__, short(got), short(list(xs))))
    f = Run(None, run=_genfunc)
    if list(f.run(iter(xs))) != [("g", v) for v in xs]:
        raise Violation("Run-none-genfunc", "")
    return {"nontrivial": len(xs) >= 1 and case["calls"] >= 2, "classes": [case["kind"]]}


CHECKS = [
    Check("three_drivers", judge_chain, strategy=lambda tier: chain_case(), quick=2500, thorough=80000,
          rule="chains of 0-3 pre-elements (callables, Variable, Filter, non-negative Slice, RunIf), one of nine accumulators and 0-2 post elements over flows 0..10; "
               "Sequence.run vs Split([chain], bufsize in {1..n+1,1000,None}) (optionally beside a second branch) vs FillComputeSeq vs FillSeq+compute+post. "
               "Non-trivial = >=1 pre and >=1 post element, flow>=2 and a bufsize smaller than the flow; or a Slice pre-element."),
    Check("adapter_matrix", judge_matrix, cases=cases_matrix, exhaustive=True,
          rule="complete matrix adapter {Call,Run,FillInto,FillCompute,SourceEl} x 21 element kinds x method-name choice {default, existing custom, missing, non-callable}: "
               "the adapter's method equals the wrapped method on sample inputs, or construction raises LenaTypeError."),
    Check("adapter_misc", judge_adapter_misc, strategy=strat_adapter_misc, quick=300, thorough=5000,
          rule="SourceEl over re-iterable containers gives the same flow on every call (also after a partial read); Run(None, run=f)."),
]


from .. import covfuzz  # noqa
CHECKS.append(covfuzz.check(CHECKS, "harness.props.c05", "three_drivers", quick=1500, thorough=100000))

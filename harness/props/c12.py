"""C12 - Histogram and graph arithmetic, scaling and conversions keep every cell."""
import copy
import math
import itertools
from fractions import Fraction

from harness.core import Check, Violation, short
from harness import gen
from hypothesis import strategies as st

import lena.flow
from lena.core import LenaValueError, LenaTypeError
from lena.structures import (histogram, graph, hist_to_graph, iter_bins,
                             iter_bins_with_edges, iter_cells)
from lena.structures.elements import ScaleTo
from lena.flow import GroupScale
from lena.flow.group_scale import scale_to
from lena.output import ToCSV, hist1d_to_csv, hist2d_to_csv

PROPERTY = "C12"
LEVEL = "exploration"
RULE = ("1-3 dim histograms and graphs with 1-3 coordinates and 0-3 error fields; algebraic "
        "relations with stated tolerances, iterator agreement, CSV parse-back.")
ASSUMPTIONS = [
    "edges and contents are ints or small dyadic floats, so integrals and sums are exact in floating point and zero scales are decided exactly",
    "iter_cells(coord_ranges=...) (documented as unstable on edges) and edges merely close to each other are left out",
]

EPS = 2.0 ** -52


@st.composite
def axis(draw, max_bins):
    n = draw(st.integers(1, max_bins))
    as_int = draw(st.booleans())
    if as_int:
        x = draw(st.integers(-5, 5))
        steps = [draw(st.integers(1, 4)) for _ in range(n)]
    else:
        x = draw(st.integers(-20, 20)) / 4.0
        steps = [draw(st.sampled_from([0.25, 0.5, 1.0, 2.0, 3.5])) for _ in range(n)]
    e = [x]
    for s in steps:
        e.append(e[-1] + s)
    return e


content = st.one_of(st.integers(-5, 9), st.integers(-40, 72).map(lambda k: k / 8.0))


@st.composite
def hist_spec(draw, max_dim=3):
    dim = draw(st.sampled_from([1, 1, 2, 2, 3][:max_dim + 2]))
    mb = {1: 6, 2: 4, 3: 3}[dim]
    edges = [draw(axis(mb)) for _ in range(dim)]
    kind = draw(st.sampled_from(["int", "float", "mixed", "zero", "pos"]))

    def cell():
        if kind == "int":
            return draw(st.integers(-5, 9))
        if kind == "float":
            return draw(st.integers(-40, 72)) / 8.0
        if kind == "zero":
            return 0
        if kind == "pos":
            return draw(st.integers(1, 9))
        return draw(content)

    def mk(d):
        n = len(edges[d]) - 1
        if d == dim - 1:
            return [cell() for _ in range(n)]
        return [mk(d + 1) for _ in range(n)]
    return {"edges": edges, "bins": mk(0), "n_out": draw(st.sampled_from([0, 0, 2, 0.5, 7])),
            "kind": kind}


def mk_hist(spec):
    edges = copy.deepcopy(spec["edges"])
    e = edges if len(edges) > 1 else edges[0]
    h = histogram(e, bins=copy.deepcopy(spec["bins"]))
    h.n_out_of_range = spec["n_out"]
    return h


def cells_of(spec):
    """[(index, content, ((lo,hi),...))] in row-major order, by own loops"""
    edges = spec["edges"]
    out = []
    for idx in itertools.product(*[range(len(e) - 1) for e in edges]):
        c = spec["bins"]
        for i in idx:
            c = c[i]
        out.append((idx, c, tuple((edges[d][i], edges[d][i + 1]) for d, i in enumerate(idx))))
    return out


def flat_bins(bins, dim):
    out = {}

    def rec(sub, idx, d):
        if d == dim:
            out[idx] = sub
        else:
            for i, s in enumerate(sub):
                rec(s, idx + (i,), d + 1)
    rec(bins, (), 0)
    return out


def exact_integral(spec):
    tot = Fraction(0)
    for idx, c, eds in cells_of(spec):
        vol = Fraction(1)
        for lo, hi in eds:
            vol *= Fraction(hi) - Fraction(lo)
        tot += vol * Fraction(c)
    return tot


def close(a, b, rel=8 * EPS, abs_=0.0):
    return abs(a - b) <= rel * max(abs(a), abs(b)) + abs_


targets = st.one_of(st.integers(-5, 9).filter(lambda x: x != 0),
                    st.sampled_from([0.5, 2.5, -1.25, 100.0, 1e-3, 3]))


def _nontrivial_hist(spec):
    dim = len(spec["edges"])
    if dim >= 2:
        return True
    e = spec["edges"][0]
    d = [b - a for a, b in zip(e, e[1:])]
    return len(set(d)) > 1 and spec["kind"] in ("float", "mixed")


# ---- histogram.scale ------------------------------------------------------

def strat_hscale(tier):
    # contents and targets of every magnitude (powers of two keep the arithmetic exact): an integral of
    # 1e-15 is not a zero scale
    return st.fixed_dictionaries({"h": hist_spec(), "s": st.one_of(targets, targets, st.just(0), st.sampled_from([2.0 ** -50, -2.0 ** -70, 2.0 ** 45])),
                                  "twice": st.booleans(),
                                  "mag_exp": st.sampled_from([0, 0, 0, 0, -45, -50, -90, 60])})


def _scaled_spec(spec, k):
    if not k:
        return spec
    def rec(b):
        return [rec(x) for x in b] if isinstance(b, list) else (b * 2.0 ** k if b else b)
    return dict(spec, bins=rec(spec["bins"]))


def judge_hscale(case):
    spec, s = _scaled_spec(case["h"], case.get("mag_exp", 0)), case["s"]
    h = mk_hist(spec)
    dim = len(spec["edges"])
    I = exact_integral(spec)
    got_scale = h.scale()
    if Fraction(got_scale) != I:
        raise Violation("histogram-scale-differs-from-integral",
                        "scale() = %r, exact integral %r for %s" % (got_scale, float(I), short(spec)))
    edges_before = copy.deepcopy(h.edges)
    if I == 0:
        try:
            h.scale(s)
        except LenaValueError:
            return {"nontrivial": True, "classes": ["zero-scale-rejected"]}
        raise Violation("histogram-zero-scale-rescaled", "%s" % short(spec))
    if s == 0:
        # rescaling *to* zero is allowed by the code (not by the statement's domain); skip
        return {"nontrivial": False, "classes": ["target-zero-skipped"]}
    r = h.scale(s)
    if r is not None:
        raise Violation("histogram-scale-returns-value", "%r" % (r,))
    f = float(s) / float(I)
    after = flat_bins(h.bins, dim)
    before = flat_bins(spec["bins"], dim)
    if set(after) != set(before):
        raise Violation("histogram-scale-changes-shape", "%r" % (h.bins,))
    for idx in before:
        if not close(after[idx], before[idx] * f):
            raise Violation("histogram-scale-wrong-content",
                            "cell %r: %r, expected %r (x%r); %s" % (idx, after[idx], before[idx] * f, f, short(spec)))
    if not close(h.n_out_of_range, spec["n_out"] * f):
        raise Violation("histogram-scale-forgets-n_out_of_range",
                        "n_out_of_range %r, expected %r" % (h.n_out_of_range, spec["n_out"] * f))
    if h.edges != edges_before:
        raise Violation("histogram-scale-changes-edges", "%r" % (h.edges,))
    if h.scale() != s:
        raise Violation("histogram-scale-not-stored", "scale() = %r after scale(%r)" % (h.scale(), s))
    tot = sum(abs(float(c) * f) * _vol(eds) for _, c, eds in cells_of(spec))
    rec = h.scale(recompute=True)
    if abs(rec - s) > 1e-9 * tot + 1e-300:
        raise Violation("histogram-recomputed-scale-differs",
                        "scale(recompute=True) = %r after scale(%r)" % (rec, s))
    if case["twice"]:
        h.scale(1)
        after2 = flat_bins(h.bins, dim)
        # (the scale was recomputed above from the rescaled bins: with cancelling contents its
        # relative error is eps times the condition number sum|c_i| vol_i / |sum c_i vol_i|)
        cond = max(1.0, tot / abs(float(s)))
        for idx in before:
            if not close(after2[idx], before[idx] / float(I), rel=32 * EPS * cond, abs_=1e-300):
                raise Violation("histogram-second-rescale-wrong", "cell %r: %r" % (idx, after2[idx]))
    return {"nontrivial": _nontrivial_hist(spec), "classes": ["dim=%d" % dim, spec["kind"]] + (
        ["integral-below-1e-12"] if abs(float(I)) < 1e-12 else []) + (["target-below-1e-12"] if abs(s) < 1e-12 else [])}


def _vol(eds):
    v = 1.0
    for lo, hi in eds:
        v *= hi - lo
    return v


# ---- histogram.add --------------------------------------------------------

@st.composite
def add_case(draw):
    a = draw(hist_spec())
    rel = draw(st.sampled_from(["same", "same", "same", "shifted", "prefix", "otherdim", "nonhist"]))
    b = copy.deepcopy(a)
    # new contents for b
    dim = len(a["edges"])

    def remap(x):
        if isinstance(x, list):
            return [remap(y) for y in x]
        return draw(content)
    b["bins"] = remap(b["bins"])
    b["n_out"] = draw(st.sampled_from([0, 1, 2.5]))
    if rel == "shifted":
        d = draw(st.integers(0, dim - 1))
        i = draw(st.integers(0, len(b["edges"][d]) - 1))
        # move one edge by a relative amount >= 1e-3 keeping order
        e = b["edges"][d]
        lo = e[i - 1] if i > 0 else e[i] - 1
        hi = e[i + 1] if i + 1 < len(e) else e[i] + 1
        new = e[i] + (hi - e[i]) * 0.25
        if abs(new - e[i]) <= 1e-3 * max(abs(new), abs(e[i])):
            new = e[i] - (e[i] - lo) * 0.25
        e[i] = new
    elif rel == "prefix":
        d = draw(st.integers(0, dim - 1))
        e = b["edges"][d]
        e.append(e[-1] + 1)

        def grow(x, depth):
            if depth == d:
                x.append(copy.deepcopy(x[-1]))
            else:
                for y in x:
                    grow(y, depth + 1)
        grow(b["bins"], 0)
        if draw(st.booleans()):
            a, b = b, a
    elif rel == "otherdim":
        b = draw(hist_spec())
        if len(b["edges"]) == dim:
            rel = "random"
    # the magnitude of the edges (the comparison is relative by default), edges one ulp apart
    # (close by the documented tolerance) and explicit tolerances
    mag = draw(st.sampled_from([None, None, None, 1e-10, 1e8, 3e-7]))
    if mag is not None and rel in ("same", "shifted"):
        for h in (a, b):
            h["edges"] = [[x * mag for x in e] for e in h["edges"]]
    ulp = None
    if rel == "same" and draw(st.integers(0, 3)) == 0:
        d = draw(st.integers(0, dim - 1))
        ulp = [d, draw(st.integers(0, len(b["edges"][d]) - 1)), draw(st.sampled_from([1, -1, 3]))]
    tols = draw(st.sampled_from([None, None, None, [0.0, 1e-9], [0.3, 0.0], [1e-12, 0.0], [0.0, 0.5], [0.0, 0.0]]))
    return {"a": a, "b": b, "rel": rel, "w": draw(st.sampled_from([1, 1, -1, 2, 0.5, -2.5, 0])),
            "explicit_w": draw(st.booleans()), "prescale": draw(st.booleans()), "ulp": ulp, "tols": tols}


def judge_add(case):
    a, b, w = case["a"], case["b"], case["w"]
    ha, hb = mk_hist(a), mk_hist(b)
    sa = (copy.deepcopy(ha.bins), copy.deepcopy(ha.edges), ha.n_out_of_range)
    sb = (copy.deepcopy(hb.bins), copy.deepcopy(hb.edges), hb.n_out_of_range)
    if case["rel"] == "nonhist":
        try:
            ha.add(copy.deepcopy(b["bins"]))
        except LenaTypeError:
            return {"nontrivial": False, "classes": ["nonhist"]}
        raise Violation("histogram-add-accepts-non-histogram", "")
    if case.get("ulp"):
        # move one edge of b by a few ulps (keeping the order of the edges)
        d, i, k = case["ulp"]
        e = b["edges"][d]
        x = float(e[i])
        for _ in range(abs(k)):
            x = math.nextafter(x, math.inf if k > 0 else -math.inf)
        if (i == 0 or e[i - 1] < x) and (i + 1 == len(e) or x < e[i + 1]):
            e[i] = x
            hb = mk_hist(b)
            sb = (copy.deepcopy(hb.bins), copy.deepcopy(hb.edges), hb.n_out_of_range)
    # "the same edges, compared approximately using math.isclose with edges_abs_tol and edges_rel_tol"
    abs_tol, rel_tol = case.get("tols") or (0.0, 1e-9)
    same_shape = [len(e) for e in a["edges"]] == [len(e) for e in b["edges"]]
    equal_edges = same_shape and all(math.isclose(x, y, rel_tol=rel_tol, abs_tol=abs_tol)
                                     for ea, eb in zip(a["edges"], b["edges"]) for x, y in zip(ea, eb))
    kw = {}
    if case.get("tols"):
        kw = {"edges_abs_tol": abs_tol, "edges_rel_tol": rel_tol}
    # the operands may have had their scale computed (and cached) before
    if case.get("prescale"):
        for h in (ha, hb):
            try:
                h.scale()
            except LenaValueError:
                pass
    try:
        res = ha.add(hb, w, **kw) if (case["explicit_w"] or w != 1) else ha.add(hb, **kw)
    except LenaValueError:
        if equal_edges:
            raise Violation("histogram-add-rejects-equal-edges", "%s" % short(case))
        res = None
    if (ha.bins, ha.edges, ha.n_out_of_range) != sa or (hb.bins, hb.edges, hb.n_out_of_range) != sb:
        raise Violation("histogram-add-modifies-operand", "%s" % short(case))
    if res is None:
        return {"nontrivial": True, "classes": ["rejected:" + case["rel"]]}
    if not equal_edges:
        raise Violation("histogram-add-accepts-different-edges",
                        "edges %r + %r gave %r" % (a["edges"], b["edges"], res.bins))
    dim = len(a["edges"])
    fa, fb, fr = flat_bins(a["bins"], dim), flat_bins(b["bins"], dim), flat_bins(res.bins, dim)
    if set(fr) != set(fa):
        raise Violation("histogram-add-shape", "%r" % (res.bins,))
    for idx in fa:
        if fr[idx] != fa[idx] + w * fb[idx]:
            raise Violation("histogram-add-wrong-cell",
                            "cell %r: %r, expected %r + %r*%r" % (idx, fr[idx], fa[idx], w, fb[idx]))
    if res.n_out_of_range != a["n_out"] + b["n_out"] * w:
        raise Violation("histogram-add-n_out_of_range", "%r" % (res.n_out_of_range,))
    if res.edges != ha.edges:
        raise Violation("histogram-add-edges", "%r" % (res.edges,))
    for op in (ha, hb):
        if gen.shared_mutables(res.bins, op.bins) or gen.shared_mutables(res.edges, op.edges):
            raise Violation("histogram-add-result-shares-lists-with-operand", "%s" % short(case))
    # the scale of the sum is that of its own contents (not a cached scale of an operand)
    rspec = {"edges": a["edges"], "bins": res.bins}
    tot = sum(abs(float(c)) * _vol(eds) for _, c, eds in cells_of(rspec))
    integral = sum(float(c) * _vol(eds) for _, c, eds in cells_of(rspec))
    got_scale = res.scale()
    if abs(got_scale - integral) > 1e-9 * tot + 1e-12:
        raise Violation("histogram-add-result-has-wrong-scale",
                        "scale() of the sum is %r, its contents integrate to %r; %s" % (got_scale, integral, short(case)))
    return {"nontrivial": _nontrivial_hist(a), "classes": ["added", "dim=%d" % dim, "w=%r" % w,
                                                            "prescaled" if case.get("prescale") else "not-prescaled"]}


# ---- set_nevents ----------------------------------------------------------

def strat_nevents(tier):
    return st.fixed_dictionaries({"h": hist_spec(), "n": st.sampled_from([1, 10, 2.5, 1000, 0.125, -3]),
                                  "oor": st.booleans()})


def judge_nevents(case):
    spec, n, oor = case["h"], case["n"], case["oor"]
    h = mk_hist(spec)
    dim = len(spec["edges"])
    before = flat_bins(spec["bins"], dim)
    tot = sum(Fraction(c) for c in before.values())
    old = tot + (Fraction(spec["n_out"]) if oor else 0)
    got_old = h.get_nevents(include_out_of_range=oor)
    if Fraction(got_old) != old:
        raise Violation("get_nevents-differs", "%r vs %r" % (got_old, float(old)))
    if old == 0:
        try:
            h.set_nevents(n, include_out_of_range=oor)
        except LenaValueError:
            return {"nontrivial": True, "classes": ["zero-events-rejected"]}
        raise Violation("set_nevents-zero-events-accepted", "%s" % short(spec))
    h.set_nevents(n, include_out_of_range=oor)
    f = float(n) / float(old)
    after = flat_bins(h.bins, dim)
    for idx in before:
        if not close(after[idx], before[idx] * f, abs_=1e-300):
            raise Violation("set_nevents-wrong-content", "cell %r: %r expected %r" % (idx, after[idx], before[idx] * f))
    if not close(h.n_out_of_range, spec["n_out"] * f, abs_=1e-300):
        raise Violation("set_nevents-n_out_of_range", "%r expected %r" % (h.n_out_of_range, spec["n_out"] * f))
    ssum = sum(abs(float(c)) for c in before.values()) + abs(spec["n_out"])
    new = h.get_nevents(include_out_of_range=oor)
    if abs(new - n) > 1e-12 * (ssum * abs(f)) + 1e-300:
        raise Violation("set_nevents-get_nevents-differs",
                        "get_nevents() = %r after set_nevents(%r)" % (new, n))
    if h.edges != (spec["edges"] if dim > 1 else spec["edges"][0]):
        raise Violation("set_nevents-changes-edges", "")
    return {"nontrivial": _nontrivial_hist(spec), "classes": ["dim=%d" % dim, "oor=%s" % oor]}


# ---- hist_to_graph, iterators ---------------------------------------------

def strat_convert(tier):
    return st.fixed_dictionaries({
        "h": hist_spec(),
        "coord": st.sampled_from(["left", "right", "middle", "bad"]),
        "make_value": st.sampled_from(["none", "none", "err", "twice"]),
        "names_as_str": st.booleans(),
        "scale": st.sampled_from(["none", "true", "number"])})


def judge_convert(case):
    spec = case["h"]
    h = mk_hist(spec)
    dim = len(spec["edges"])
    cells = cells_of(spec)
    coordn = ["x", "y", "z"][:dim]
    mv = case["make_value"]
    if mv == "none":
        names = coordn + ["v"]
        f = None
        val = lambda c: (c,)
    elif mv == "err":
        names = coordn + ["v", "error_v"]
        f = lambda c: (c, c * 0.5)
        val = f
    else:
        names = coordn + ["v"]
        f = lambda c: c * 2
        val = lambda c: (c * 2,)
    fn = ", ".join(names) if case["names_as_str"] else tuple(names)
    kw = {}
    if case["scale"] == "true":
        kw["scale"] = True
    elif case["scale"] == "number":
        kw["scale"] = 7
    if case["coord"] == "bad":
        try:
            hist_to_graph(h, get_coordinate="centre", field_names=fn)
        except LenaValueError:
            return {"nontrivial": False, "classes": ["bad-coordinate-rejected"]}
        raise Violation("hist_to_graph-accepts-bad-get_coordinate", "")
    g = hist_to_graph(h, make_value=f, get_coordinate=case["coord"], field_names=fn, **kw)
    pts = list(g)
    if len(pts) != len(cells):
        raise Violation("hist_to_graph-point-count", "%d points for %d cells" % (len(pts), len(cells)))
    for pt, (idx, c, eds) in zip(pts, cells):
        if case["coord"] == "left":
            xc = tuple(lo for lo, hi in eds)
        elif case["coord"] == "right":
            xc = tuple(hi for lo, hi in eds)
        else:
            xc = tuple(0.5 * (lo + hi) for lo, hi in eds)
        want = xc + tuple(val(c))
        if tuple(pt) != want:
            raise Violation("hist_to_graph-wrong-point",
                            "cell %r (edges %r, content %r, mode %s): point %r, expected %r" % (idx, eds, c, case["coord"], pt, want))
    if tuple(g.field_names) != tuple(names):
        raise Violation("hist_to_graph-field-names", "%r" % (g.field_names,))
    exp_scale = {"none": None, "true": float(exact_integral(spec)), "number": 7}[case["scale"]]
    if g.scale() != exp_scale:
        raise Violation("hist_to_graph-scale", "%r expected %r" % (g.scale(), exp_scale))
    if (h.bins, h.n_out_of_range) != (spec["bins"], spec["n_out"]):
        raise Violation("hist_to_graph-changes-histogram", "")
    return {"nontrivial": _nontrivial_hist(spec), "classes": ["dim=%d" % dim, case["coord"], mv]}


@st.composite
def iter_case(draw):
    spec = draw(hist_spec())
    ranges = []
    valid = True
    for e in spec["edges"]:
        n = len(e) - 1
        lo = draw(st.one_of(st.none(), st.integers(-1, n + 1)))
        up = draw(st.one_of(st.none(), st.integers(-1, n + 2)))
        ranges.append([lo, up])
    return {"h": spec, "ranges": ranges, "use_ranges": draw(st.booleans())}


def judge_iter(case):
    spec = case["h"]
    h = mk_hist(spec)
    dim = len(spec["edges"])
    cells = cells_of(spec)
    ib = list(iter_bins(h.bins))
    if [(tuple(i), c) for i, c in ib] != [(i, c) for i, c, e in cells]:
        raise Violation("iter_bins-differs", "%r vs %r" % (short(ib), short(cells)))
    ibe = list(iter_bins_with_edges(h.bins, h.edges))
    if [(c, tuple(tuple(x) for x in e)) for c, e in ibe] != [(c, e) for i, c, e in cells]:
        raise Violation("iter_bins_with_edges-differs", "%r vs %r" % (short(ibe), short(cells)))

    def norm_cell(cell):
        e = cell.edges
        if dim == 1:
            e = (tuple(e),) if not isinstance(e[0], (tuple, list)) else tuple(tuple(x) for x in e)
        else:
            e = tuple(tuple(x) for x in e)
        return (tuple(cell.index), cell.bin, e)
    full = [norm_cell(c) for c in iter_cells(h)]
    if full != cells:
        raise Violation("iter_cells-differs-from-iter_bins", "%r vs %r" % (short(full), short(cells)))
    classes = ["dim=%d" % dim]
    nt = _nontrivial_hist(spec)
    if case["use_ranges"]:
        rng = case["ranges"]
        valid = True
        sel = []
        for (lo, up), e in zip(rng, spec["edges"]):
            n = len(e) - 1
            if lo is not None and lo < 0:
                valid = False
            if up is not None and up > n:
                valid = False
            l = 0 if lo is None else lo
            u = n if up is None else up
            sel.append(range(l, u))
        try:
            got = [norm_cell(c) for c in iter_cells(h, ranges=tuple(tuple(r) for r in rng))]
        except LenaValueError:
            if valid:
                raise Violation("iter_cells-rejects-valid-range", "%r" % (rng,))
            return {"nontrivial": nt, "classes": classes + ["range-rejected"]}
        if not valid:
            raise Violation("iter_cells-accepts-invalid-range", "%r for edges %r" % (rng, spec["edges"]))
        want_idx = set(itertools.product(*sel))
        want = [c for c in cells if c[0] in want_idx]
        if got != want:
            raise Violation("iter_cells-subrange-differs",
                            "ranges %r: %r, expected %r" % (rng, short(got), short(want)))
        classes.append("subrange")
    return {"nontrivial": nt, "classes": classes}


# ---- CSV ------------------------------------------------------------------

def strat_csv(tier):
    return st.fixed_dictionaries({"h": hist_spec(max_dim=2), "dup": st.booleans(),
                                  "sep": st.sampled_from([",", ";", "\t", " , "]),
                                  "via": st.sampled_from(["func", "element", "element_ctx"]),
                                  "header": st.sampled_from([None, "h1"]),
                                  "row_end": st.sampled_from(["", "\\\\"]), "before": st.lists(st.booleans(), max_size=2)})


def judge_csv(case):
    spec, dup, sep = case["h"], case["dup"], case["sep"]
    h = mk_hist(spec)
    dim = len(spec["edges"])
    e, b = spec["edges"], spec["bins"]
    want = []
    if dim == 1:
        want = [(e[0][i], b[i]) for i in range(len(b))]
        if dup:
            want.append((e[0][-1], b[-1]))
    else:
        for i in range(len(b)):
            for j in range(len(b[i])):
                want.append((e[0][i], e[1][j], b[i][j]))
            if dup:
                want.append((e[0][i], e[1][-1], b[i][-1]))
        if dup:
            for j in range(len(b[-1])):
                want.append((e[0][-1], e[1][j], b[-1][j]))
            want.append((e[0][-1], e[1][-1], b[-1][-1]))
    row_end = ""
    if case["via"] == "func":
        f = hist1d_to_csv if dim == 1 else hist2d_to_csv
        lines = list(f(h, header=case["header"], separator=sep, duplicate_last_bin=dup))
    else:
        row_end = case["row_end"]
        if case["via"] == "element":
            el = ToCSV(separator=sep, header=case["header"], duplicate_last_bin=dup, row_end=row_end)
            ctx = {"a": 1}
        else:
            el = ToCSV(separator=sep, header=case["header"], duplicate_last_bin=not dup, row_end=row_end)
            ctx = {"output": {"duplicate_last_bin": dup}}
        # other histograms in the same flow, carrying their own output options, change nothing for this one
        flow = [(histogram([0, 1, 2], [3, 4]), {"output": {"duplicate_last_bin": b}}) for b in case.get("before", [])] + [(h, ctx)]
        res = list(el.run(iter(flow)))
        if len(res) != len(flow):
            raise Violation("ToCSV-result-count", "%r" % (res,))
        text, c = res[-1]
        if lena.context.get_recursively(c, "output.filetype", None) != "csv":
            raise Violation("ToCSV-filetype-not-set", "%r" % (c,))
        hc = c.get("histogram", {})
        if hc.get("dim") != dim or hc.get("nbins") != [len(x) - 1 for x in e]:
            raise Violation("ToCSV-histogram-context", "%r" % (c,))
        lines = text.split(row_end + "\n") if row_end else text.split("\n")
    if case["header"]:
        if lines[0] != case["header"]:
            raise Violation("csv-header", "%r" % (lines[:1],))
        lines = lines[1:]
    if len(lines) != len(want):
        raise Violation("csv-row-count", "%d rows, expected %d (dup=%r): %r" % (len(lines), len(want), dup, lines))
    for ln, w in zip(lines, want):
        parts = ln.split(sep)
        try:
            nums = [float(p) for p in parts]
        except ValueError:
            raise Violation("csv-unparsable-row", "%r" % (ln,))
        if len(nums) != len(w) or any(abs(x - y) > 5e-7 for x, y in zip(nums, w)):
            raise Violation("csv-row-differs", "row %r parses to %r, expected %r" % (ln, nums, w))
    return {"nontrivial": _nontrivial_hist(spec) or dim == 2, "classes": ["dim=%d" % dim, "dup=%s" % dup, case["via"]]}


# ---- graphs ---------------------------------------------------------------

@st.composite
def graph_spec(draw):
    dim = draw(st.integers(1, 3))
    names = draw(st.sampled_from([["x", "y", "z"], ["E", "time", "v"], ["x", "xy", "y"], ["a", "b", "c"],
                                   # a later coordinate whose name is a proper prefix of an earlier one
                                   ["time", "t", "ti"], ["xs", "y", "x"], ["ab", "a", "abc"], ["yy", "y", "x"]]))[:dim]
    errs = []
    for _ in range(draw(st.integers(0, 3))):
        c = draw(st.sampled_from(names))
        suffix = draw(st.sampled_from(["", "_low", "_high", "_low_90"]))
        nm = "error_" + c + suffix
        if nm not in errs:
            errs.append(nm)
    # ambiguity: with coordinate names x and xy, 'error_xy' could... ("error_x" + "y")
    # - only names where exactly one coordinate matches are valid; the
    # generator keeps prefix-free coordinate sets except for the xy family,
    # which is filtered here
    def matches(err):
        m = err[6:]
        return [c for c in names if m == c or m.startswith(c + "_")]
    errs = [e for e in errs if len(matches(e)) == 1]
    npts = draw(st.integers(0, 5))
    cols = [[draw(content) for _ in range(npts)] for _ in range(dim + len(errs))]
    alias = None
    if len(cols) >= 2 and draw(st.integers(0, 3)) == 0:
        i = draw(st.integers(0, len(cols) - 2))
        j = draw(st.integers(i + 1, len(cols) - 1))
        cols[j] = list(cols[i])
        alias = [i, j]
    scale = draw(st.sampled_from(["none", 0, 1, 2, 0.5, -4, 10.0, 2.0 ** -50, -2.0 ** -70, 2.0 ** 45]))
    return {"names": names + errs, "dim": dim, "cols": cols, "alias": alias, "scale": scale,
            "names_as_str": draw(st.booleans())}


def mk_graph(spec):
    cols = [list(c) for c in spec["cols"]]
    if spec["alias"]:
        i, j = spec["alias"]
        cols[j] = cols[i]
    fn = " ".join(spec["names"]) if spec["names_as_str"] else tuple(spec["names"])
    sc = None if spec["scale"] == "none" else spec["scale"]
    return graph(cols, field_names=fn, scale=sc)


def expected_rescaled(spec, s):
    names, dim = spec["names"], spec["dim"]
    last = names[dim - 1]
    idx = [dim - 1]
    for k, nm in enumerate(names[dim:]):
        m = nm[6:]
        if m == last or m.startswith(last + "_"):
            idx.append(dim + k)
    f = float(s) / spec["scale"]
    cols = []
    for k, c in enumerate(spec["cols"]):
        cols.append([v * f for v in c] if k in idx else list(c))
    return cols, idx


def check_graph_rescaled(g, spec, s, what):
    cols, idx = expected_rescaled(spec, s)
    for k, (got, want) in enumerate(zip(g.coords, cols)):
        if k in idx:
            ok = len(got) == len(want) and all(close(a, b, abs_=1e-300) for a, b in zip(got, want))
        else:
            ok = list(got) == want and all(type(a) is type(b) for a, b in zip(got, want))
        if not ok:
            raise Violation("graph-scale-wrong-column",
                            "%s: field %r (%s): %r, expected %r; graph %s rescaled to %r" % (
                                what, spec["names"][k], "rescaled" if k in idx else "untouched",
                                list(got), want, short(spec), s))
    if len(g.coords) != len(cols):
        raise Violation("graph-scale-changes-fields", "")
    if g.scale() != s:
        raise Violation("graph-scale-not-stored", "scale() = %r after scale(%r)" % (g.scale(), s))


def strat_gscale(tier):
    return st.fixed_dictionaries({"g": graph_spec(), "s": st.one_of(targets, targets, targets, st.sampled_from([2.0 ** -50, -2.0 ** -70, 2.0 ** 45]))})


def judge_gscale(case):
    spec, s = case["g"], case["s"]
    g = mk_graph(spec)
    if tuple(g.field_names) != tuple(spec["names"]) or g.dim != spec["dim"]:
        raise Violation("graph-fields", "%r dim %r" % (g.field_names, g.dim))
    if spec["scale"] in ("none", 0):
        want = None if spec["scale"] == "none" else 0
        if g.scale() != want:
            raise Violation("graph-scale-getter", "%r" % (g.scale(),))
        try:
            g.scale(s)
        except LenaValueError:
            if [list(c) for c in g.coords] != spec["cols"]:
                raise Violation("graph-changed-by-failed-rescale", "")
            return {"nontrivial": True, "classes": ["unknown-or-zero-scale-rejected"]}
        raise Violation("graph-zero-or-unknown-scale-rescaled", "%s" % short(spec))
    r = g.scale(s)
    if r is not None:
        raise Violation("graph-scale-returns-value", "%r" % (r,))
    check_graph_rescaled(g, spec, s, "graph.scale")
    nerr = len(spec["names"]) - spec["dim"]
    last = spec["names"][spec["dim"] - 1]
    foreign_err = any(not (n[6:] == last or n[6:].startswith(last + "_")) for n in spec["names"][spec["dim"]:])
    return {"nontrivial": foreign_err or bool(spec["alias"]),
            "classes": ["dim=%d" % spec["dim"], "errors=%d" % nerr, "alias" if spec["alias"] else "noalias"]}


# ---- groups ---------------------------------------------------------------

@st.composite
def group_case(draw):
    members = []
    for _ in range(draw(st.integers(1, 4))):
        if draw(st.booleans()):
            h = draw(hist_spec(max_dim=2))
            members.append({"t": "h", "spec": h})
        else:
            g = draw(graph_spec())
            members.append({"t": "g", "spec": g})
    return {"members": members, "s": draw(targets),
            "via": draw(st.sampled_from(["scale_to", "GroupScale", "ScaleTo", "selector"])),
            "allow": draw(st.booleans())}


def judge_group(case):
    s = case["s"]
    vals = []
    scalable = []
    for k, m in enumerate(case["members"]):
        if m["t"] == "h":
            obj = mk_hist(m["spec"])
            ok = exact_integral(m["spec"]) != 0
        else:
            obj = mk_graph(m["spec"])
            ok = m["spec"]["scale"] not in ("none", 0)
        vals.append((obj, {"k": k}))
        scalable.append(ok)
    via = case["via"]
    allow = case["allow"]
    target = s
    try:
        if via == "ScaleTo":
            out = [ScaleTo(s)(v) for v in vals[:1]]
            vals = vals[:1]
            scalable = scalable[:1]
            members = case["members"][:1]
            allow = False
        else:
            members = case["members"]
            if via == "selector":
                # scale everything to the scale of member 0
                sel = lambda v: lena.flow.get_context(v).get("k") == 0
                if members[0]["t"] == "h":
                    target = float(exact_integral(members[0]["spec"]))
                else:
                    target = members[0]["spec"]["scale"]
                    target = None if target == "none" else target
                arg = sel
            else:
                arg = s
            if via == "GroupScale":
                out = GroupScale(arg, allow_zero_scale=allow, allow_unknown_scale=allow)(vals)
                if out is not vals:
                    raise Violation("GroupScale-returns-other-object", "")
            else:
                scale_to(arg, vals, allow_zero_scale=allow, allow_unknown_scale=allow)
    except (LenaValueError, lena.core.LenaAttributeError):
        if all(scalable) and target is not None and target != 0:
            raise Violation("group-scale-rejects-scalable-group", "%s" % short(case, 600))
        return {"nontrivial": True, "classes": [via, "rejected"]}
    except TypeError:
        if target is None:
            return {"nontrivial": False, "classes": [via, "unknown-target"]}
        raise
    if target is None or target == 0:
        # the selected member has an unknown or zero scale itself: nothing is promised
        return {"nontrivial": False, "classes": [via, "unknown-target"]}
    if not all(scalable) and not allow:
        raise Violation("group-scale-ignores-unscalable-member", "%s" % short(case, 600))
    for (obj, ctx), m, ok in zip(vals, members, scalable):
        if not ok:
            continue
        if m["t"] == "h":
            spec = m["spec"]
            dim = len(spec["edges"])
            f = float(target) / float(exact_integral(spec))
            before, after = flat_bins(spec["bins"], dim), flat_bins(obj.bins, dim)
            for idx in before:
                if not close(after[idx], before[idx] * f, abs_=1e-300):
                    raise Violation("group-scale-wrong-histogram-content",
                                    "%s: cell %r = %r expected %r" % (via, idx, after[idx], before[idx] * f))
            if obj.scale() != target:
                raise Violation("group-scale-member-scale", "%r != %r" % (obj.scale(), target))
        else:
            check_graph_rescaled(obj, m["spec"], target, via)
    return {"nontrivial": len(vals) >= 2, "classes": [via, "n=%d" % len(vals)]}


CHECKS = [
    Check("hist_scale", judge_hscale, strategy=strat_hscale, quick=3000, thorough=60000,
          rule="histograms (1-3 dim, uneven dyadic edges, int/float/mixed/zero contents, n_out_of_range) rescaled to non-zero targets; non-trivial = dim>=2 or uneven edges with float contents."),
    Check("hist_add", judge_add, strategy=lambda tier: add_case(), quick=3000, thorough=60000,
          rule="pairs with equal edges / one shifted edge / one edge array a prefix of the other / other dimension / non-histogram, weights incl. 0 and negatives; edge magnitudes 1e-10..1e8, one edge moved by 1-3 ulps, default and explicit edges_abs_tol / edges_rel_tol: accepted iff math.isclose says so for every edge."),
    Check("set_nevents", judge_nevents, strategy=strat_nevents, quick=2000, thorough=40000,
          rule="set_nevents / get_nevents with both include_out_of_range settings; zero events rejected."),
    Check("hist_to_graph", judge_convert, strategy=strat_convert, quick=2400, thorough=50000,
          rule="left/right/middle coordinates, make_value variants (incl. error columns), scale None/True/number, field names as tuple or string."),
    Check("iterators", judge_iter, strategy=lambda tier: iter_case(), quick=2400, thorough=50000,
          rule="iter_bins / iter_bins_with_edges / iter_cells agree with an independent index loop; index sub-ranges incl. empty and invalid ones."),
    Check("csv", judge_csv, strategy=strat_csv, quick=2400, thorough=50000,
          rule="hist1d_to_csv / hist2d_to_csv / ToCSV (element and context duplicate_last_bin, separators, header, row_end) parsed back within 5e-7."),
    Check("graph_scale", judge_gscale, strategy=strat_gscale, quick=3000, thorough=60000,
          rule="graphs with 1-3 coordinates, 0-3 error fields in every valid naming, columns possibly sharing one list, scale known/None/0; "
               "non-trivial = an error field that does not belong to the last coordinate, or shared columns."),
    Check("groups", judge_group, strategy=lambda tier: group_case(), quick=1600, thorough=30000,
          rule="scale_to / GroupScale (number or selector target, allow_* flags) / ScaleTo over groups of histograms and graphs."),
]


from .. import covfuzz  # noqa
CHECKS.append(covfuzz.check(CHECKS, "harness.props.c12", "hist_add", quick=3000, thorough=80000))
CHECKS.append(covfuzz.check(CHECKS, "harness.props.c12", "graph_scale", quick=3000, thorough=80000))

"""C17 - Flow iterators equal their Python reference (Slice is list slicing)."""
import collections
import itertools

from harness.core import Check, Violation, short
from hypothesis import strategies as st

import lena.core
import lena.flow
from lena.core import LenaStopFill, LenaValueError, Sequence
from lena.flow import Slice, StoreFilled, Reverse, Chain, CountFrom, RunningChunkBy

PROPERTY = "C17"
LEVEL = "exploration"
RULE = ("Slice/Reverse/Chain/CountFrom/RunningChunkBy against Python list "
        "slicing, reversed, itertools and sliding windows.")
ASSUMPTIONS = [
    "flows are finite sequences of distinct ints and of None / false values, handed to run() as list, tuple, deque, dict (keys), range, generator, map, iterator and user-defined iterables; run is also repeated on the same Slice object (fill_into is single-use by design)",
    "repr(), ==, != and `in` applied to an element before it is used must not change what it does",
    "integer-valued float steps and Slice() without arguments are left out (not promised)",
]

R = [None] + list(range(-7, 8))
NN = [None] + list(range(0, 8))
STEPS = [None, 1, 2, 3, 4]


def sign(v):
    return "N" if v is None else ("-" if v < 0 else "+")


def _mk(start, stop, step, form):
    if form == 1:
        return Slice(stop)
    if form == 2:
        return Slice(start, stop)
    return Slice(start, stop, step)


FALSY = [None, 0, False, "", (), 0.0]


def make_flow(kind, n):
    """flows of distinct ints, and flows with values that are false or None
    (an element must not mistake a value for 'no value')"""
    if kind == "none_holes":
        return [None if i % 3 == 1 else 100 + i for i in range(n)]
    if kind == "all_none":
        return [None] * n
    if kind == "falsy":
        return [FALSY[i % len(FALSY)] for i in range(n)]
    return list(range(100, 100 + n))


def _typed(v):
    return (type(v).__name__, v)


class _Iterable(object):
    """a re-iterable flow object that is not a list, tuple or deque"""
    def __init__(self, xs):
        self.xs = xs

    def __iter__(self):
        return iter(self.xs)


class _Sized(_Iterable):
    def __len__(self):
        return len(self.xs)

    def __getitem__(self, i):
        if not isinstance(i, int):
            raise TypeError("indices must be integers")
        return self.xs[i]


def _gen(xs):
    for x in xs:
        yield x


def _hashable(xs):
    try:
        return len(set(xs)) == len(xs)
    except TypeError:
        return False


# every way a finite flow can be handed to run(): one-shot iterators and re-iterable containers
CONTAINERS = [
    ("list", list), ("tuple", tuple), ("deque", collections.deque),
    ("deque_maxlen", lambda xs: collections.deque(xs, maxlen=len(xs) + 3)),
    ("iterable", _Iterable), ("sized", _Sized), ("generator", _gen),
    ("list_iterator", lambda xs: iter(list(xs))),
    ("dict_keys", lambda xs: dict.fromkeys(xs).keys()), ("dict", lambda xs: dict.fromkeys(xs)),
    ("range", lambda xs: range(xs[0], xs[0] + len(xs)) if xs else range(0)),
    ("map", lambda xs: map(lambda x: x, xs)),
]


def containers_for(xs):
    for name, mk in CONTAINERS:
        if name in ("dict_keys", "dict") and not _hashable(xs):
            continue
        if name == "range" and not (all(type(x) is int for x in xs)
                                    and xs == list(range(xs[0] if xs else 0, (xs[0] if xs else 0) + len(xs)))):
            continue
        yield name, mk


def observe(el, twin):
    """operations that must not change what an element does afterwards"""
    repr(el)
    el == twin
    el != twin
    twin == el
    el in [twin]
    el == 5
    repr(el)


def judge_run(case):
    start, stop, step, n, form = (case["start"], case["stop"], case["step"],
                                  case["n"], case.get("form", 3))
    xs = make_flow(case.get("vals", "range"), n)
    exp = xs[start:stop:step]
    got = list(_mk(start, stop, step, form).run(iter(xs)))
    if list(map(_typed, got)) != list(map(_typed, exp)):
        raise Violation("slice-run-differs-from-list-slicing",
                        "Slice(%r,%r,%r).run(range %d) = %s, expected %s" % (
                            start, stop, step, n, short(got), short(exp)))
    got2 = list(Sequence(_mk(start, stop, step, form)).run(xs))
    if list(map(_typed, got2)) != list(map(_typed, exp)):
        raise Violation("slice-in-sequence-differs-from-list-slicing",
                        "Sequence(Slice(%r,%r,%r)).run(list %d) = %s, expected %s" % (
                            start, stop, step, n, short(got2), short(exp)))
    # the same element run again (a sequence inside RunIf or a Split branch is run once per value / block)
    sl = _mk(start, stop, step, form)
    for xs2 in (xs, xs[:max(0, n - 3)], xs + xs[:2], xs[:1]):
        exp2 = xs2[start:stop:step]
        got3 = list(sl.run(iter(list(xs2))))
        if list(map(_typed, got3)) != list(map(_typed, exp2)):
            raise Violation("slice-run-again-differs-from-list-slicing",
                            "the same Slice(%r,%r,%r) run again on a flow of %d values gives %s, expected %s" % (
                                start, stop, step, len(xs2), short(got3), short(exp2)))
    # the flow handed over as any kind of iterable (Sequence.run passes what it is given)
    for cname, mk in containers_for(xs):
        sl = _mk(start, stop, step, form)
        observe(sl, _mk(start, stop, step, form))
        try:
            got4 = list(sl.run(mk(list(xs))))
        except Exception as e:
            raise Violation("slice-run-on-a-%s-fails" % cname,
                            "Slice(%r,%r,%r).run(%s of %d values) raises %s: %s" % (
                                start, stop, step, cname, n, type(e).__name__, e))
        if list(map(_typed, got4)) != list(map(_typed, exp)):
            raise Violation("slice-run-on-a-container-differs-from-list-slicing",
                            "Slice(%r,%r,%r).run(%s of %d values) = %s, expected %s" % (
                                start, stop, step, cname, n, short(got4), short(exp)))
    neg = (start is not None and start < 0) or (stop is not None and stop < 0)
    m = max(abs(start or 0), abs(stop or 0))
    return {"nontrivial": neg and n > 0,
            "classes": ["signs:%s%s step%s" % (sign(start), sign(stop),
                                               "1" if step in (None, 1) else ">1"),
                        "n>|idx|" if n > m else "n<=|idx|"]}


def cases_run(tier):
    for start, stop, step, n in itertools.product(R, R, STEPS, range(11)):
        yield {"start": start, "stop": stop, "step": step, "n": n, "form": 3}
    for vals in ("none_holes", "all_none", "falsy"):
        for start, stop, step, n in itertools.product(R, R, STEPS, range(1, 11)):
            yield {"start": start, "stop": stop, "step": step, "n": n, "form": 3, "vals": vals}
    for stop, n in itertools.product(R, range(11)):
        yield {"start": None, "stop": stop, "step": None, "n": n, "form": 1}
    for start, stop, n in itertools.product(R, R, range(11)):
        yield {"start": start, "stop": stop, "step": None, "n": n, "form": 2}


class _Collect(object):
    def __init__(self):
        self.got = []

    def fill(self, v):
        self.got.append(v)


def judge_fill(case):
    start, stop, step, n = case["start"], case["stop"], case["step"], case["n"]
    xs = list(range(n)) if "vals" not in case else make_flow(case["vals"], n)
    sl = _mk(start, stop, step, case.get("form", 3))
    col = _Collect()
    stopped = None
    for i, x in enumerate(xs):
        try:
            sl.fill_into(col, x)
        except LenaStopFill:
            stopped = i
            break
    exp = xs[start:stop:step]
    if list(map(_typed, col.got)) != list(map(_typed, exp)):
        raise Violation("slice-fill_into-differs-from-list-slicing",
                        "Slice(%r,%r,%r).fill_into over range(%d) filled %s, expected %s (stopped at %r)"
                        % (start, stop, step, n, short(col.got), short(exp), stopped))
    if stopped is not None:
        horizon = case.get("horizon", 14)
        later = list(range(stopped + horizon))[start:stop:step]
        if any(j >= stopped for j in later):
            raise Violation("slice-fill_into-stops-too-early",
                            "Slice(%r,%r,%r): LenaStopFill at index %d although index %d would be selected"
                            % (start, stop, step, stopped,
                               min(j for j in later if j >= stopped)))
    return {"nontrivial": n > 0 and (start or stop is not None or (step or 1) > 1),
            "classes": ["stopped" if stopped is not None else "not-stopped",
                        "step%s" % ("1" if step in (None, 1) else ">1")]}


def cases_fill(tier):
    for start, stop, step, n in itertools.product(NN, NN, STEPS, range(11)):
        yield {"start": start, "stop": stop, "step": step, "n": n, "form": 3}
    for stop, n in itertools.product(NN, range(11)):
        yield {"start": None, "stop": stop, "step": None, "n": n, "form": 1}
    for vals in ("none_holes", "falsy"):
        for start, stop, step, n in itertools.product(NN, NN, STEPS, range(1, 11)):
            yield {"start": start, "stop": stop, "step": step, "n": n, "form": 3, "vals": vals}


BAD_STEPS = [0, -1, -3, 1.5, 2.5]


def judge_reject(case):
    start, stop, step = case["start"], case["stop"], case["step"]
    try:
        Slice(start, stop, step)
    except LenaValueError:
        return {"nontrivial": True, "classes": ["rejected"]}
    raise Violation("slice-bad-step-accepted",
                    "Slice(%r,%r,%r) was accepted" % (start, stop, step))


def cases_reject(tier):
    for step in BAD_STEPS:
        for start, stop in itertools.product(R, R):
            yield {"start": start, "stop": stop, "step": step}


def strat_beyond(tier):
    idx = st.one_of(st.none(), st.integers(-40, 40))
    small = st.fixed_dictionaries({
        "start": idx, "stop": idx,
        "step": st.one_of(st.none(), st.integers(1, 9)),
        "n": st.integers(0, 60), "form": st.just(3)})
    big = st.one_of(st.none(), st.integers(-400, 400), st.integers(250, 262), st.integers(-262, -250))
    large = st.fixed_dictionaries({
        "start": big, "stop": big,
        "step": st.one_of(st.none(), st.integers(1, 9), st.integers(50, 130)),
        "n": st.integers(240, 420), "form": st.just(3)})
    return st.one_of(small, small, large)


def strat_fill_beyond(tier):
    idx = st.one_of(st.none(), st.integers(0, 40))
    small = st.fixed_dictionaries({
        "start": idx, "stop": idx,
        "step": st.one_of(st.none(), st.integers(1, 9)),
        "n": st.integers(0, 60), "form": st.just(3), "horizon": st.just(60)})
    # large indices (beyond the small integers an interpreter may treat specially)
    big = st.one_of(st.none(), st.integers(200, 400), st.integers(250, 262), st.integers(1000, 1100))
    large = st.fixed_dictionaries({
        "start": big, "stop": big,
        "step": st.one_of(st.none(), st.integers(1, 9), st.integers(50, 130)),
        "n": st.one_of(st.integers(240, 420), st.integers(1000, 1200)), "form": st.just(3),
        "horizon": st.just(60)})
    return st.one_of(small, small, large)


_NT = dict((k, collections.namedtuple("NT%d" % k, ["f%d" % i for i in range(k)]))
           for k in range(1, 6))


def judge_chunks(case):
    size, n, kind = case["size"], case["n"], case["container"]
    xs = make_flow(case.get("vals", "range"), n)
    if kind == "tuple":
        el = RunningChunkBy(size)
        cont = tuple
    elif kind == "list":
        el = RunningChunkBy(size, list, from_iterable=True)
        cont = list
    elif kind == "tuple_it":
        el = RunningChunkBy(size, tuple, from_iterable=True)
        cont = tuple
    elif kind == "deque":
        import collections
        el = RunningChunkBy(size, collections.deque, from_iterable=True)
        cont = collections.deque
    else:
        nt = _NT[size]
        el = RunningChunkBy(size, nt)
        cont = lambda c: nt(*c)
    exp = [cont(xs[i:i + size]) for i in range(n - size + 1)]
    flow = iter(xs) if case.get("as_iter", True) else xs
    got = list(el.run(flow))
    if got != exp or [type(g) for g in got] != [type(e) for e in exp]:
        raise Violation("running-chunks-differ-from-sliding-windows",
                        "RunningChunkBy(%d,%s) on range(%d): %s, expected %s" % (
                            size, kind, n, short(got), short(exp)))
    if len(set(id(g) for g in got)) != len(got) and kind != "tuple":
        raise Violation("running-chunks-are-one-object", "RunningChunkBy(%d,%s) on range(%d) yields the same object several times" % (size, kind, n))
    if not case.get("as_iter", True):
        # the same element again, the flow handed over as every kind of iterable
        for cname, mk in containers_for(xs):
            observe(el, RunningChunkBy(size))
            try:
                got = list(el.run(mk(list(xs))))
            except Exception as e:
                raise Violation("running-chunks-on-a-%s-fail" % cname,
                                "RunningChunkBy(%d,%s).run(%s of %d values) raises %s: %s" % (
                                    size, kind, cname, n, type(e).__name__, e))
            if got != exp or [type(g) for g in got] != [type(e) for e in exp]:
                raise Violation("running-chunks-differ-from-sliding-windows",
                                "RunningChunkBy(%d,%s) on a %s of %d values: %s, expected %s" % (
                                    size, kind, cname, n, short(got), short(exp)))
    return {"nontrivial": n > size, "classes": [kind]}


def cases_chunks(tier):
    for size, n, kind, as_iter in itertools.product(
            range(1, 6), range(0, 11), ["tuple", "list", "tuple_it", "namedtuple", "deque"],
            [True, False]):
        yield {"size": size, "n": n, "container": kind, "as_iter": as_iter}
        if n:
            yield {"size": size, "n": n, "container": kind, "as_iter": as_iter, "vals": "none_holes"}


def strat_misc(tier):
    ints = st.lists(st.one_of(st.integers(-5, 5), st.sampled_from([None, 0, "", False])), max_size=12)
    return st.one_of(
        st.fixed_dictionaries({"kind": st.just("reverse"), "xs": ints,
                               "in_seq": st.booleans()}),
        st.fixed_dictionaries({"kind": st.just("chain"),
                               "its": st.lists(ints, max_size=4)}),
        st.fixed_dictionaries({"kind": st.just("countfrom"),
                               "start": st.one_of(st.integers(-100, 100), st.integers(-100, 100),
                                                  st.floats(-10, 10),
                                                  # around the largest machine integers (itertools.count has no bound)
                                                  st.builds(lambda b, d: b + d, st.sampled_from([2 ** 31, 2 ** 63, 2 ** 64, -2 ** 63, 10 ** 30]), st.integers(-5, 5))),
                               "step": st.one_of(st.integers(-5, 5),
                                                 st.floats(-3, 3)),
                               "take": st.integers(0, 20)}),
    )


def judge_misc(case):
    k = case["kind"]
    if k == "reverse":
        xs = case["xs"]
        # an error raised by the flow while Reverse reads it is not the end of the flow
        for exc in (IndexError, KeyError, ValueError, RuntimeError):
            def failing(exc=exc):
                for v in xs:
                    yield v
                raise exc("upstream failed")
            try:
                res = list(Reverse().run(failing()))
            except exc:
                pass
            else:
                raise Violation("reverse-swallows-an-error-of-the-flow",
                                "Reverse over a flow of %d values that then raises %s yields %s" % (len(xs), exc.__name__, short(res)))
        if case["in_seq"]:
            got = list(Sequence(Reverse()).run(list(xs)))
        else:
            got = list(Reverse().run(iter(list(xs))))
        exp = list(reversed(list(xs)))
        if list(map(_typed, got)) != list(map(_typed, exp)):
            raise Violation("reverse-differs", "%s -> %s" % (xs, got))
        # a flow given as a list is not consumed, and the element can be run again
        mine = list(xs)
        rv = Reverse()
        g1 = list(rv.run(mine))
        if mine != list(xs):
            raise Violation("reverse-changes-the-list-it-is-given", "%s became %s" % (xs, mine))
        g2 = list(rv.run(iter(mine)))
        if list(map(_typed, g1)) != list(map(_typed, exp)) or list(map(_typed, g2)) != list(map(_typed, exp)):
            raise Violation("reverse-differs", "%s -> %s then %s" % (xs, g1, g2))
        for cname, mk in containers_for(list(xs)):
            observe(rv, Reverse())
            try:
                g3 = list(rv.run(mk(list(xs))))
            except Exception as e:
                raise Violation("reverse-fails-on-a-%s" % cname, "%s: %s" % (type(e).__name__, e))
            if list(map(_typed, g3)) != list(map(_typed, exp)):
                raise Violation("reverse-differs", "%s of %s -> %s" % (cname, xs, g3))
        return {"nontrivial": len(xs) > 1, "classes": ["reverse"]}
    if k == "chain":
        its = case["its"]
        got = list(Chain(*[list(i) for i in its])())
        exp = list(itertools.chain(*its))
        if list(map(_typed, got)) != list(map(_typed, exp)):
            raise Violation("chain-differs", "%s -> %s" % (its, got))
        got2 = list(lena.core.Source(Chain(*[iter(list(i)) for i in its]))())
        if got2 != exp:
            raise Violation("chain-as-source-differs", "%s -> %s" % (its, got2))
        # iterables of every kind; looking at a Chain (repr, ==, !=, in) before it is called changes nothing
        for shift in range(3):
            args = []
            for j, i in enumerate(its):
                kinds = list(containers_for(list(i)))
                args.append(kinds[(j + shift * 5 + len(i)) % len(kinds)][1](list(i)))
            c = Chain(*args)
            observe(c, Chain(*[list(i) for i in its]))
            observe(Chain(*[list(i) for i in its]), c)
            try:
                got3 = list(c())
            except Exception as e:
                raise Violation("chain-fails", "Chain of %s raises %s: %s" % (
                    [type(a).__name__ for a in args], type(e).__name__, e))
            if list(map(_typed, got3)) != list(map(_typed, exp)):
                raise Violation("chain-differs-after-being-compared-or-on-other-iterables",
                                "Chain(%s) of %s -> %s, expected %s" % (
                                    [type(a).__name__ for a in args], its, short(got3), short(exp)))
        return {"nontrivial": sum(1 for i in its if i) > 1, "classes": ["chain"]}
    if k == "countfrom":
        start, step, take = case["start"], case["step"], case["take"]
        got = list(itertools.islice(CountFrom(start, step)(), take))
        exp = list(itertools.islice(itertools.count(start, step), take))
        if got != exp:
            raise Violation("countfrom-differs", "%s" % (case,))
        got2 = list(lena.core.Source(CountFrom(start, step), Slice(take))())
        if got2 != exp:
            raise Violation("countfrom-source-differs", "%s" % (case,))
        # every call counts from the start again, also while an earlier generator is still alive
        cf = CountFrom(start, step)
        observe(cf, CountFrom(start, step))
        g1 = cf()
        first = list(itertools.islice(g1, take // 2 + 1))
        g2 = cf()
        again = list(itertools.islice(g2, take))
        rest = list(itertools.islice(g1, 2))
        full = list(itertools.islice(itertools.count(start, step), take // 2 + 3))
        if again != exp or first + rest != full:
            raise Violation("countfrom-calls-share-state", "%s: second call gives %s, the first continued with %s" % (case, again, rest))
        return {"nontrivial": take > 1, "classes": ["countfrom"]}
    raise AssertionError(k)


CHECKS = [
    Check("slice_run_box", judge_run, cases=cases_run, exhaustive=True,
          rule="complete box start,stop in {None,-7..7} x step in {None,1..4} x len 0..10 x flows of distinct ints / with None holes / all None / false values, "
               "3-/2-/1-argument constructor forms; non-trivial = a negative index and a non-empty flow."),
    Check("slice_fill_box", judge_fill, cases=cases_fill, exhaustive=True,
          rule="complete non-negative box for fill_into, LenaStopFill index checked against every later index; "
               "non-trivial = non-default argument and non-empty flow."),
    Check("slice_reject", judge_reject, cases=cases_reject, exhaustive=True,
          rule="steps 0,-1,-3,1.5,2.5 x every start, stop in {None,-7..7} must raise LenaValueError at construction."),
    Check("chunks_box", judge_chunks, cases=cases_chunks, exhaustive=True,
          rule="RunningChunkBy sizes 1..5 x len 0..10 x container kinds x list/iterator input; non-trivial = more than one window."),
    Check("slice_run_beyond", judge_run, strategy=strat_beyond, quick=4000,
          thorough=100000,
          rule="Hypothesis outside the box: |index|<=40, len<=60, step<=9, and large cases |index|<=400 (around 256), len 240-420, steps up to 130."),
    Check("slice_fill_beyond", judge_fill, strategy=strat_fill_beyond, quick=2400,
          thorough=50000,
          rule="Hypothesis outside the box for fill_into: index<=40, len<=60, step<=9."),
    Check("misc_iterators", judge_misc, strategy=strat_misc, quick=2400,
          thorough=30000,
          rule="Reverse / Chain / CountFrom against reversed / itertools.chain / itertools.count."),
]


from .. import covfuzz  # noqa
CHECKS.append(covfuzz.check(CHECKS, "harness.props.c17", "misc_iterators", quick=3000, thorough=100000))

"""C14 - Variables compose like functions and keep each variable's description."""
import copy

from harness.core import Check, Violation, short
from hypothesis import strategies as st

from lena.core import Sequence, LenaTypeError
from lena.variables import Variable, Compose, Combine

PROPERTY = "C14"
LEVEL = "exploration"
RULE = ("chains of 1-5 variables (distinct types, extra attributes, nested Compose), "
        "Combine tuples, values with/without pre-existing context.variable; "
        "Compose == Sequence differential, explicit expected context.variable, purity.")
ASSUMPTIONS = [
    "types in one chain are pairwise distinct and non-empty (statement); untyped variables only checked for data and purity",
    "getters are pure functions from a fixed registry",
]

def _num(f):
    """total: numbers are transformed, anything else (None, booleans) passes"""
    return lambda x: f(x) if isinstance(x, (int, float)) and not isinstance(x, bool) else x


FUNCS = {
    "add1": _num(lambda x: x + 1),
    "dbl": _num(lambda x: x * 2),
    "sub3": _num(lambda x: x - 3),
    "neg": _num(lambda x: -x),
    "sq": _num(lambda x: x * x),
    "id": lambda x: x,
    # getters whose result is None / depends on None (a value, not "no value")
    "none_if_odd": lambda x: None if isinstance(x, int) and not isinstance(x, bool) and x % 2 else x,
    "is_none": lambda x: x is None,
    "zero_if_none": lambda x: 0 if x is None else x,
}
# type names are arbitrary non-empty strings: some look like nested keys
TYPES = ["ta", "tb", "tc", "td", "te", "tf", "p.lep", "p.had", "q.r.s", "tj"]


class _MyDict(dict):
    pass


def _ctx_of_kind(d, kind):
    """the context of a value is a dictionary or any subclass of it (lena.context.Context is one)"""
    import collections
    import lena.context
    if kind == "Context":
        return lena.context.Context(d)
    if kind == "OrderedDict":
        return collections.OrderedDict(d)
    if kind == "subclass":
        return _MyDict(d)
    return d

CTX_KINDS = ["dict", "dict", "dict", "Context", "OrderedDict", "subclass"]
ATTRS = ["unit", "latex_name", "range", "color"]

attr_vals = st.one_of(st.sampled_from(["u", "v", "cm"]), st.integers(0, 3),
                      st.lists(st.integers(0, 2), min_size=2, max_size=2),
                      st.fixed_dictionaries({"k": st.integers(0, 2)}))


@st.composite
def varspec(draw, idx, type_):
    attrs = draw(st.dictionaries(st.sampled_from(ATTRS), attr_vals, max_size=2))
    return {"name": "v%d" % idx, "f": draw(st.sampled_from(sorted(FUNCS))),
            "type": type_, "attrs": attrs}


@st.composite
def chain_case(draw):
    n_pre = draw(st.sampled_from([0, 0, 0, 1, 2]))
    n = draw(st.integers(1, 5))
    # chain nodes: simple var or nested compose of 1..3
    sizes = [draw(st.sampled_from([1, 1, 1, 2, 3])) for _ in range(n)]
    while sum(sizes) + n_pre > len(TYPES):
        sizes[sizes.index(max(sizes))] -= 1 if max(sizes) > 1 else 0
        if max(sizes) == 1:
            sizes = sizes[:len(TYPES) - n_pre]
            break
    types = draw(st.permutations(TYPES))
    ti = 0
    pre = []
    for i in range(n_pre):
        pre.append(draw(varspec(100 + i, types[ti])))
        ti += 1
    chain = []
    k = 0
    for s in sizes:
        if s == 1:
            chain.append(draw(varspec(k, types[ti])))
            ti += 1
            k += 1
        else:
            sub = []
            for _ in range(s):
                sub.append(draw(varspec(k, types[ti])))
                ti += 1
                k += 1
            node = {"compose": sub}
            if draw(st.booleans()):
                node["name"] = "comp%d" % k
            if draw(st.integers(0, 2)) == 0:
                # attributes given to the composition itself
                node["kw"] = draw(st.dictionaries(st.sampled_from(ATTRS), attr_vals, min_size=1, max_size=2))
            chain.append(node)
    pre_kind = draw(st.sampled_from(["none", "none", "unrelated", "untyped_var"])) if not pre else "typed"
    ctx = None
    if pre_kind in ("unrelated", "typed") or draw(st.booleans()):
        ctx = draw(st.dictionaries(st.sampled_from(["z", "q"]),
                                   st.one_of(st.integers(0, 3), st.fixed_dictionaries({"w": st.integers(0, 2)})),
                                   max_size=2))
    if pre_kind == "untyped_var":
        ctx = ctx or {}
        ctx["variable"] = draw(st.sampled_from([{"name": "old"}, {"name": "old", "unit": "V", "range": [0, 5]},
                                                {"name": "xy", "dim": 2, "combine": [{"name": "x"}, {"name": "y"}]}]))
    pre_same = False
    if pre and draw(st.integers(0, 3)) == 0:
        # the value comes from an earlier stage that used a variable of the same type as one of the chain
        # (the chain's own types stay pairwise distinct): judged by Compose == Sequence only
        pre_same = True
        allv = [v for node in chain for v in (node["compose"] if "compose" in node else [node])]
        pre[0]["type"] = draw(st.sampled_from(allv))["type"]
    data = draw(st.integers(-5, 5))
    if ctx is not None and draw(st.integers(0, 5)) == 0:
        data = [data, {"det": "A"}]
    return {"pre": pre, "chain": chain, "ctx": ctx, "data": data,
            "ctx_kind": draw(st.sampled_from(CTX_KINDS)),
            "repeat": draw(st.integers(1, 3)), "pre_same": pre_same,
            "untyped_at": draw(st.one_of(st.none(), st.none(), st.integers(0, 4)))}


def build_var(spec, untyped=False):
    return Variable(spec["name"], FUNCS[spec["f"]],
                    type="" if untyped else spec["type"],
                    **copy.deepcopy(spec["attrs"]))


def build_node(node, untyped_names=()):
    if "compose" in node:
        vs = [build_var(s, s["name"] in untyped_names) for s in node["compose"]]
        kw = copy.deepcopy(node.get("kw", {}))
        if "name" in node:
            kw["name"] = node["name"]
        return Compose(*vs, **kw)
    return build_var(node, node["name"] in untyped_names)


def flat_specs(chain):
    out = []
    for node in chain:
        if "compose" in node:
            out.extend(node["compose"])
        else:
            out.append(node)
    return out


def mkdata(d):
    # data that itself looks like a (value, dictionary) pair
    if isinstance(d, list):
        return (d[0], copy.deepcopy(d[1]))
    return d


def mkvalue(case):
    if case["ctx"] is None:
        return mkdata(case["data"])
    return (mkdata(case["data"]), _ctx_of_kind(copy.deepcopy(case["ctx"]), case.get("ctx_kind", "dict")))


def judge_chain(case):
    chain = case["chain"]
    flat = flat_specs(chain)
    untyped = ()
    if case["untyped_at"] is not None and flat:
        untyped = (flat[case["untyped_at"] % len(flat)]["name"],)
    # value after the pre-existing typed variables
    def start():
        val = mkvalue(case)
        for s in case["pre"]:
            val = build_var(s)(val)
        return val

    # expected data
    d = mkdata(case["data"])
    for s in case["pre"] + flat:
        d = FUNCS[s["f"]](d)

    nodes_seq = [build_node(n, untyped) for n in chain]
    snaps = [copy.deepcopy(v.var_context) for v in nodes_seq]
    r_seq = list(Sequence(*nodes_seq).run([start()]))
    if len(r_seq) != 1:
        raise Violation("sequence-of-variables-result-count", "%r" % (r_seq,))
    r_seq = r_seq[0]
    comp = Compose(*[build_node(n, untyped) for n in chain])
    comp_snap = copy.deepcopy(comp.var_context)
    r_cmp = comp(start())
    if r_seq[0] != d or r_cmp[0] != d:
        raise Violation("composed-data-differs",
                        "data seq=%r compose=%r expected %r for %s" % (r_seq[0], r_cmp[0], d, short(case)))
    classes = ["len=%d" % len(flat), "pre=%d" % len(case["pre"]), "context:" + (case.get("ctx_kind", "dict") if case["ctx"] is not None else "none"),
               "nested" if len(flat) != len(chain) else "flat",
               "untyped" if untyped else "typed"]
    has_kw = any("kw" in n for n in chain)
    if has_kw:
        classes.append("compose-with-attributes")
    if case.get("pre_same"):
        classes.append("incoming-type-equals-a-type-of-the-chain")
        if not untyped and r_cmp != r_seq:
            raise Violation("compose-differs-from-sequence",
                            "(the value already carries a variable of a type used in the chain) Compose: %r\nSequence: %r\ncase %s" % (
                                r_cmp[1], r_seq[1], short(case, 600)))
        return {"nontrivial": True, "classes": classes}
    if not has_kw and (not untyped or untyped[0] == flat[-1]["name"]):
        # nesting does not matter either: the composition equals the plain sequence of its simple variables
        flat_vars = [build_var(s_, s_["name"] in untyped) for s_ in flat]
        r_flat = list(Sequence(*flat_vars).run([start()]))[0]
        if r_cmp != r_flat:
            raise Violation("compose-differs-from-sequence",
                            "(nested compositions vs. the flat sequence of their variables) Compose: %r\nflat Sequence: %r\ncase %s" % (
                                r_cmp[1], r_flat[1], short(case, 600)))
    if untyped and untyped[0] == flat[-1]["name"] and r_cmp != r_seq:
        # a composition is the successive application of its variables, typed or not
        raise Violation("compose-differs-from-sequence",
                        "(chain with an untyped variable) Compose: %r\nSequence: %r\ncase %s" % (r_cmp[1], r_seq[1], short(case, 600)))
    if not untyped and has_kw:
        # (the attributes of a nested composition are its own: only Compose == Sequence is judged)
        if r_cmp != r_seq:
            raise Violation("compose-differs-from-sequence",
                            "Compose: %r\nSequence: %r\ncase %s" % (r_cmp[1], r_seq[1], short(case, 600)))
    elif not untyped:
        if r_cmp != r_seq:
            raise Violation("compose-differs-from-sequence",
                            "Compose: %r\nSequence: %r\ncase %s" % (r_cmp[1], r_seq[1], short(case, 600)))
        # explicit expectation
        allspecs = case["pre"] + flat
        last = allspecs[-1]
        for name, res in (("sequence", r_seq), ("compose", r_cmp)):
            cv = res[1].get("variable")
            if not isinstance(cv, dict):
                raise Violation("context-variable-missing", "%s: %r" % (name, res))
            if cv.get("type") != last["type"]:
                raise Violation("context-variable-type", "%s: %r expected %r" % (name, cv, last["type"]))
            for s in allspecs:
                exp = dict({"name": s["name"]}, **s["attrs"])
                if cv.get(s["type"]) != exp:
                    raise Violation("composed-variable-description-lost",
                                    "%s: context.variable[%r] = %r, expected %r; case %s" % (
                                        name, s["type"], cv.get(s["type"]), exp, short(case, 500)))
            exp_compose = [s["type"] for s in allspecs]
            if len(allspecs) > 1:
                if cv.get("compose") != exp_compose:
                    raise Violation("compose-list-wrong",
                                    "%s: compose = %r, expected %r; case %s" % (name, cv.get("compose"), exp_compose, short(case, 500)))
            elif "compose" in cv:
                raise Violation("compose-list-wrong", "%s: single variable has compose %r" % (name, cv))
            # name and attributes of the resulting variable
            # the name of the resulting variable, as the variable itself
            # reports it (Compose's *name* keyword is outside the statement)
            exp_name = (nodes_seq[-1] if name == "sequence" else comp).name
            if exp_name not in (last["name"], chain[-1].get("name")):
                raise Violation("variable-name-attribute", "%r" % (exp_name,))
            if True:
                if cv.get("name") != exp_name:
                    raise Violation("context-variable-name",
                                    "%s: name %r expected %r" % (name, cv.get("name"), exp_name))
            for a, v in last["attrs"].items():
                if cv.get(a) != v:
                    raise Violation("context-variable-attribute-lost",
                                    "%s: %r=%r expected %r" % (name, a, cv.get(a), v))
            known = set(["name", "type", "compose"]) | set(s["type"] for s in allspecs) | set(last["attrs"])
            extra = set(cv) - known
            if extra:
                raise Violation("context-variable-extra-keys", "%s: %r in %r" % (name, extra, cv))
    # purity
    for v, s in zip(nodes_seq, snaps):
        if v.var_context != s:
            raise Violation("variable-changed-by-application",
                            "var_context %r != snapshot %r" % (v.var_context, s))
    if comp.var_context != comp_snap:
        raise Violation("variable-changed-by-application", "Compose var_context changed")
    other_exp = dict((k, v) for k, v in (case["ctx"] or {}).items() if k != "variable")
    for name, res in (("sequence", r_seq), ("compose", r_cmp)):
        other = dict((k, v) for k, v in res[1].items() if k != "variable")
        if other != other_exp:
            raise Violation("context-outside-variable-changed",
                            "%s: %r expected %r" % (name, other, other_exp))
    # repeated application to equal values gives equal results, also after
    # mutating an earlier result
    first = comp(start())
    first_snapshot = copy.deepcopy(first)
    for _ in range(case["repeat"]):
        again = comp(start())
        if again != first_snapshot:
            raise Violation("repeated-application-differs",
                            "%r then %r" % (first_snapshot, again))
        # mutate what was returned: must not affect the variable
        if isinstance(first[1].get("variable"), dict):
            first[1]["variable"]["name"] = "MUT"
            for k, v in first[1]["variable"].items():
                if isinstance(v, dict):
                    v["MUT"] = 1
                elif isinstance(v, list):
                    v.append("MUT")
    if comp.var_context != comp_snap:
        raise Violation("variable-shares-context-with-result", "Compose var_context changed after mutating its result")
    nt = (len(flat) >= 3 or bool(case["pre"]) or
          any("compose" in n for n in chain[1:]))
    return {"nontrivial": nt and not untyped, "classes": classes}


@st.composite
def combine_case(draw):
    n = draw(st.integers(1, 4))
    types = draw(st.permutations(TYPES))
    vs = [draw(varspec(i, types[i])) for i in range(n)]
    if n >= 2 and draw(st.integers(0, 3)) == 0:
        # different variables may have equal names
        for v in vs[1:]:
            if draw(st.booleans()):
                v["name"] = vs[0]["name"]
    elif draw(st.integers(0, 2)) == 0:
        # components that are themselves combined or composed variables (also a single one)
        ti = n
        for i in range(n):
            k = draw(st.sampled_from(["var", "combine", "combine", "compose"]))
            if k == "var" or ti + 2 > len(TYPES):
                continue
            m = draw(st.integers(1, 2))
            sub = [vs[i]] + [draw(varspec(10 * (i + 1) + j, types[ti + j])) for j in range(m - 1)]
            ti += m - 1
            vs[i] = {k: sub}
    ctx = draw(st.one_of(st.none(), st.dictionaries(
        st.sampled_from(["z", "q"]), st.integers(0, 3), max_size=2)))
    data = draw(st.integers(-5, 5))
    if ctx is not None and draw(st.integers(0, 5)) == 0:
        data = [data, {"det": "A"}]
    return {"vars": vs, "ctx": ctx, "data": data,
            "ctx_kind": draw(st.sampled_from(CTX_KINDS)),
            "name": draw(st.one_of(st.none(), st.just("cmb"))),
            "untyped": draw(st.booleans()),
            "ctype": draw(st.sampled_from([None, None, "point"])),
            "kw": draw(st.dictionaries(st.sampled_from(ATTRS), attr_vals, max_size=1))}


def _build_component(s, untyped):
    if "combine" in s:
        return Combine(*[build_var(x, untyped) for x in s["combine"]])
    if "compose" in s:
        return Compose(*[build_var(x, untyped) for x in s["compose"]])
    return build_var(s, untyped)


def _component_data(s, d):
    if "combine" in s:
        return tuple(FUNCS[x["f"]](d) for x in s["combine"])
    if "compose" in s:
        for x in s["compose"]:
            d = FUNCS[x["f"]](d)
        return d
    return FUNCS[s["f"]](d)


def judge_combine(case):
    vs = [_build_component(s, case["untyped"]) for s in case["vars"]]
    snaps = [copy.deepcopy(v.var_context) for v in vs]
    kw = copy.deepcopy(case["kw"])
    if case["name"]:
        kw["name"] = case["name"]
    if case.get("ctype"):
        kw["type"] = case["ctype"]
    c = Combine(*vs, **kw)
    csnap = copy.deepcopy(c.var_context)
    val = mkvalue(case)
    data, ctx = c(val)
    exp = tuple(_component_data(s, mkdata(case["data"])) for s in case["vars"])
    if data != exp or not isinstance(data, tuple):
        raise Violation("combine-data-differs", "%r expected %r" % (data, exp))
    cv = ctx.get("variable", {})
    if tuple(cv.get("combine", ())) != tuple(snaps) or cv.get("dim") != len(vs):
        raise Violation("combine-context-differs", "%r expected combine %r" % (cv, snaps))
    exp_name = case["name"] or "_".join(v.name for v in vs)
    if cv.get("name") != exp_name:
        raise Violation("combine-name", "%r expected %r" % (cv.get("name"), exp_name))
    for a, v in case["kw"].items():
        if cv.get(a) != v:
            raise Violation("combine-attribute-lost", "%r" % (cv,))
    if case.get("ctype"):
        sub = cv.get(case["ctype"])
        top = dict((k_, v_) for k_, v_ in cv.items() if k_ not in ("type", case["ctype"]))
        if cv.get("type") != case["ctype"] or not isinstance(sub, dict) or \
                dict(sub, combine=tuple(sub.get("combine", ()))) != dict(top, combine=tuple(top.get("combine", ()))):
            raise Violation("combine-type-subcontext-does-not-describe-the-variable",
                            "context.variable[%r] = %r, the variable is %r" % (case["ctype"], sub, top))
    other = dict((k, v) for k, v in ctx.items() if k != "variable")
    if other != (case["ctx"] or {}):
        raise Violation("context-outside-variable-changed", "%r" % (ctx,))
    # purity: mutate result, variables unchanged, second application equal
    for sub in cv.get("combine", ()):
        sub["MUT"] = 1
    for v, s in zip(vs, snaps):
        if v.var_context != s:
            raise Violation("variable-changed-by-application", "%r" % (v.var_context,))
    if c.var_context != csnap:
        raise Violation("variable-shares-context-with-result", "Combine.var_context changed after mutating its result")
    for i, v in enumerate(vs):
        if c[i] is not v:
            raise Violation("combine-getitem", "index %d" % i)
    data2, ctx2 = c(mkvalue(case))
    if data2 != exp or tuple(ctx2["variable"]["combine"]) != tuple(snaps):
        raise Violation("repeated-application-differs", "%r" % (ctx2,))
    nested = [k for s in case["vars"] for k in ("combine", "compose") if k in s]
    return {"nontrivial": len(vs) >= 2 or bool(nested),
            "classes": ["dim=%d" % len(vs), "context:" + case.get("ctx_kind", "dict")]
            + ["component:" + k for k in nested]
            + (["single-combine-component"] if len(vs) == 1 and "combine" in case["vars"][0] else [])}


def strat_bad(tier):
    return st.fixed_dictionaries({
        "which": st.sampled_from(["compose_empty", "compose_nonvar", "compose_getter",
                                  "combine_empty", "combine_nonvar", "var_getter_var",
                                  "var_getter_noncallable"]),
        "junk": st.sampled_from([None, 1, "s", [1]])})


def judge_bad(case):
    w, junk = case["which"], case["junk"]
    v = Variable("x", FUNCS["id"], type="ta")
    try:
        if w == "compose_empty":
            Compose()
        elif w == "compose_nonvar":
            Compose(v, junk)
        elif w == "compose_getter":
            Compose(v, getter=FUNCS["id"])
        elif w == "combine_empty":
            Combine()
        elif w == "combine_nonvar":
            Combine(v, junk)
        elif w == "var_getter_var":
            Variable("y", v)
        elif w == "var_getter_noncallable":
            Variable("y", junk)
    except LenaTypeError:
        return {"nontrivial": True, "classes": [w]}
    raise Violation("bad-variable-argument-accepted", "%r" % (case,))


CHECKS = [
    Check("compose_chain", judge_chain, strategy=lambda tier: chain_case(),
          quick=3000, thorough=150000,
          rule="chains of 1-5 nodes (simple or nested Compose of 2-3), 0-2 pre-existing typed variables in the value's context; "
               "non-trivial = >=3 variables, a pre-existing typed context.variable, or a nested Compose at a non-first position."),
    Check("combine", judge_combine, strategy=lambda tier: combine_case(),
          quick=1200, thorough=50000,
          rule="Combine of 1-4 variables; non-trivial = dim>=2."),
    Check("bad_arguments", judge_bad, strategy=strat_bad, quick=100, thorough=400,
          rule="invalid constructor arguments raise LenaTypeError."),
]


from .. import covfuzz  # noqa
CHECKS.append(covfuzz.check(CHECKS, "harness.props.c14", "compose_chain", quick=3000, thorough=100000))
CHECKS.append(covfuzz.check(CHECKS, "harness.props.c14", "combine", quick=3000, thorough=100000))

"""C15 - Selectors evaluate compositionally; GroupBy partitions by selected context."""
import copy
import itertools

from harness.core import Check, Violation, short
from harness import gen
from hypothesis import strategies as st

from lena.core import LenaTypeError, LenaValueError, Sequence
from lena.flow import Selector, Not, And, Or, Filter, GroupBy
from lena.flow.selectors import SelectContext

PROPERTY = "C15"
LEVEL = "exploration"
RULE = ("selector specifications nested to depth 3 against a reference evaluator with "
        "short-circuit and raise_on_error semantics; GroupBy partitions against a "
        "reference signature over key paths.")
ASSUMPTIONS = [
    "predicates come from a fixed registry (total, or raising ValueError/KeyError on some values) and return bool",
    "GroupBy: pairs of contexts whose answer depends on whether interior (dictionary) key paths count as key paths are skipped and counted; contexts contain no empty dictionaries",
    "dotted strings with empty components mean what the docstring of contains says (every dot is a level of nesting, an empty component is the key '')",
]


class Boom(ValueError):
    pass


class HV(object):
    """a harness class for class selectors"""


def _data(v):
    if isinstance(v, tuple) and len(v) == 2 and isinstance(v[1], dict):
        return v[0]
    return v


def _ctx(v):
    if isinstance(v, tuple) and len(v) == 2 and isinstance(v[1], dict):
        return v[1]
    return {}


def p_even(v):
    return isinstance(_data(v), int) and _data(v) % 2 == 0


def p_raise_odd(v):
    d = _data(v)
    if isinstance(d, int) and d % 2:
        raise Boom("odd")
    return True


def p_raise_str(v):
    if isinstance(_data(v), str):
        raise KeyError("str")
    return False


def p_true(v):
    return True


def p_false(v):
    return False


def p_has_ctx(v):
    return bool(_ctx(v))


PREDS = {"even": p_even, "raise_odd": p_raise_odd, "raise_str": p_raise_str,
         "true": p_true, "false": p_false, "has_ctx": p_has_ctx}
CLASSES = {"int": int, "str": str, "tuple": tuple, "HV": HV, "dict": dict}
STRS = ["a", "a.b", "a.b.x", "a.b.c", "c", "c.1", "b.s", "a.b.x.y", "d.e",
        # the documented string test against a scalar that is false
        "c.0", "a.b.None", "a.False", "d.0",
        # every dot is a level of nesting (docstring of contains), also next to an empty component
        ".a", "a..b", "a.", ".c.1", ""]

# predicates on sub-contexts (SelectContext)
SUBPREDS = {
    "is_dict": lambda s: isinstance(s, dict),
    "gt1": lambda s: s > 1,          # raises TypeError for dict/str
    "eq_x": lambda s: s == "x",
    "len2": lambda s: len(s) >= 2,   # raises TypeError for ints
}


def leaf_strat():
    return st.one_of(
        st.builds(lambda s: {"k": "str", "s": s}, st.sampled_from(STRS)),
        st.builds(lambda c: {"k": "cls", "c": c}, st.sampled_from(sorted(CLASSES))),
        st.builds(lambda f: {"k": "fn", "f": f}, st.sampled_from(sorted(PREDS))),
        st.builds(lambda key, nota, p, r: {"k": "selctx", "key": key, "notation": nota, "p": p, "roe": r},
                  st.sampled_from(["a", "a.b", "c", "a.b.x", "d.e", ""]),
                  st.sampled_from(["str", "list", "dict"]),
                  st.sampled_from(sorted(SUBPREDS)), st.booleans()),
    )


def raising_block():
    """a raising predicate followed (or preceded) by one that decides: the place where the handling of
    raise_on_error and the short-circuit order show, to be wrapped in further lists / tuples / Not"""
    raising = st.builds(lambda f: {"k": "fn", "f": f}, st.sampled_from(["raise_odd", "raise_str"]))
    deciding = st.builds(lambda f: {"k": "fn", "f": f}, st.sampled_from(["true", "false", "even"]))
    pair = st.one_of(st.tuples(raising, deciding), st.tuples(deciding, raising)).map(list)
    return st.builds(lambda kind, items: {"k": kind, "items": items}, st.sampled_from(["or", "and"]), pair)


def same_predicate_block():
    """two SelectContext items that apply one predicate (the same function object) to different keys: they are
    different selectors although they compare equal (Selector.__eq__ looks at the wrapped callable only)"""
    def mk(kind, p, keys, roes, nota):
        items = [{"k": "selctx", "key": k_, "notation": nota, "p": p, "roe": r} for k_, r in zip(keys, roes)]
        d = {"k": kind, "items": items}
        if kind in ("And", "Or"):
            d["roe"] = None
        return d
    return st.builds(mk, st.sampled_from(["or", "and", "And", "Or"]), st.sampled_from(sorted(SUBPREDS)),
                     st.permutations(["a", "a.b", "c", "d.e"]).map(lambda ks: ks[:2]),
                     st.lists(st.booleans(), min_size=2, max_size=2), st.sampled_from(["str", "list", "dict"]))


def spec_strat(depth):
    if depth == 0:
        return st.one_of(leaf_strat(), leaf_strat(), leaf_strat(), raising_block(), same_predicate_block())
    sub = spec_strat(depth - 1)
    return st.one_of(
        leaf_strat(), leaf_strat(), raising_block(), same_predicate_block(),
        st.builds(lambda items: {"k": "or", "items": items}, st.lists(sub, max_size=3)),
        st.builds(lambda items: {"k": "and", "items": items}, st.lists(sub, max_size=3)),
        st.builds(lambda s, r: {"k": "not", "spec": s, "roe": r}, sub, st.booleans()),
        st.builds(lambda s, r: {"k": "sel", "spec": s, "roe": r}, sub, st.booleans()),
        # the classes And / Or themselves, with raise_on_error given or left at its default
        st.builds(lambda kind, items, r: {"k": kind, "items": items, "roe": r}, st.sampled_from(["And", "Or"]),
                  st.lists(sub, max_size=3), st.sampled_from([None, None, True, False])),
    )


VALUES = [
    0, 1, 2, 3, "str", "", [1, 2], ["t", 1, 2], None,
    ["p", 3, {"a": {"b": "x"}}], ["p", 4, {"a": 5}], ["p", 5, {"c": 1}],
    ["p", 6, {}], ["p", "s", {"a": {"b": {"x": 1, "c": 2}}}],
    ["p", 7, {"a": {"b": "c"}, "b": "s", "c": [1]}], ["p", ["HV"], {"d": {"e": 2}}],
    ["HV"], ["p", 2, {"a": {"b": None}}],
    ["p", 8, {"c": 0}], ["p", 9, {"a": False, "d": 0}],
    ["p", 10, {"": {"a": 1, "c": 1}, "a": {"": {"b": 2}, "b": 3}}], ["p", 11, {"a": {"": 1}, "c": {"1": 1}}],
]


def mkvalue(v):
    """decode the JSON form of a value"""
    if isinstance(v, list) and v and v[0] == "p":
        return (mkvalue(v[1]), copy.deepcopy(v[2]))
    if isinstance(v, list) and v and v[0] == "t":
        return tuple(v[1:])
    if isinstance(v, list) and v == ["HV"]:
        return HV()
    return copy.deepcopy(v)


def top_spec():
    """mostly composite specifications (a single leaf says little)"""
    sub = spec_strat(2)
    composite = st.one_of(
        st.builds(lambda items: {"k": "or", "items": items}, st.lists(sub, min_size=1, max_size=3)),
        st.builds(lambda items: {"k": "and", "items": items}, st.lists(sub, min_size=1, max_size=3)),
        st.builds(lambda s, r: {"k": "not", "spec": s, "roe": r}, sub, st.booleans()),
        st.builds(lambda s, r: {"k": "sel", "spec": s, "roe": r}, sub, st.booleans()),
    )
    return st.one_of(composite, composite, composite, spec_strat(3))


def selector_case(tier):
    return st.builds(lambda spec, roe, vals: {"spec": spec, "roe": roe, "values": vals},
                     top_spec(), st.booleans(),
                     st.lists(st.sampled_from(VALUES), min_size=1, max_size=6))


def _key_notation(key, notation):
    parts = [p for p in key.split(".") if p]
    if notation == "str":
        return key
    if notation == "list":
        return parts
    # dict: {'a': {'b': {}}} for a.b ; empty for ""
    d = {}
    cur = d
    for p in parts:
        cur[p] = {}
        cur = cur[p]
    return d


def build(spec):
    """spec -> object to be passed to Selector (or a ready Selector)"""
    k = spec["k"]
    if k == "str":
        return spec["s"]
    if k == "cls":
        return CLASSES[spec["c"]]
    if k == "fn":
        return PREDS[spec["f"]]
    if k == "selctx":
        return SelectContext(_key_notation(spec["key"], spec["notation"]),
                             SUBPREDS[spec["p"]], raise_on_error=spec["roe"])
    if k == "or":
        return [build(s) for s in spec["items"]]
    if k == "and":
        return tuple(build(s) for s in spec["items"])
    if k == "not":
        return Not(build(spec["spec"]), raise_on_error=spec["roe"])
    if k == "sel":
        return Selector(build(spec["spec"]), raise_on_error=spec["roe"])
    if k in ("And", "Or"):
        cls = And if k == "And" else Or
        items = [build(s) for s in spec["items"]]
        if k == "And":
            items = tuple(items)
        if spec["roe"] is None:
            return cls(items)
        return cls(items, raise_on_error=spec["roe"])
    raise AssertionError(k)


def ref_contains(d, s):
    levels = s.split(".")
    if len(levels) < 2:
        return s in d
    found, parent = gen.ref_get(d, levels[:-1])
    if not found:
        return False
    if isinstance(parent, dict):
        return levels[-1] in parent
    return str(parent) == levels[-1]


def _guard(f, roe):
    try:
        return f()
    except Exception:
        if roe:
            raise
        return False


def ref_own(spec, v):
    """Evaluate a ready-made selector (SelectContext, Not, Selector instance)
    with its own raise_on_error; may raise."""
    k = spec["k"]
    r2 = spec["roe"]
    if k == "selctx":
        parts = [p for p in spec["key"].split(".") if p]
        found, sub = gen.ref_get(_ctx(v), parts)
        if not found:
            return False
        return _guard(lambda: SUBPREDS[spec["p"]](sub), r2)
    if k == "not":
        return not _guard(lambda: ref(spec["spec"], v, r2), r2)
    if k == "sel":
        return _guard(lambda: ref(spec["spec"], v, r2), r2)
    if k in ("And", "Or"):
        # raise_on_error (True unless given) is for the items it converts; ready-made items keep their own
        r2 = True if r2 is None else r2
        return (all if k == "And" else any)(ref_item(s, v, r2) for s in spec["items"])
    raise AssertionError(k)


READY = ("selctx", "not", "sel", "And", "Or")


def ref_item(spec, v, roe):
    """An item of a list/tuple: ready-made selectors are used as they are,
    everything else is converted with the inherited raise_on_error."""
    if spec["k"] in READY:
        return ref_own(spec, v)
    return ref(spec, v, roe)


def ref(spec, v, roe):
    """Selector(build(spec), raise_on_error=roe)(v)"""
    k = spec["k"]
    if k == "str":
        return _guard(lambda: ref_contains(_ctx(v), spec["s"]), roe)
    if k == "cls":
        return _guard(lambda: isinstance(_data(v), CLASSES[spec["c"]]), roe)
    if k == "fn":
        return _guard(lambda: PREDS[spec["f"]](v), roe)
    if k == "or":
        return _guard(lambda: any(ref_item(s, v, roe) for s in spec["items"]), roe)
    if k == "and":
        return _guard(lambda: all(ref_item(s, v, roe) for s in spec["items"]), roe)
    # a ready-made selector wrapped as a callable
    return _guard(lambda: ref_own(spec, v), roe)


def _depth(spec):
    k = spec["k"]
    if k in ("or", "and", "And", "Or"):
        return 1 + max([_depth(s) for s in spec["items"]] or [0])
    if k in ("not", "sel"):
        return 1 + _depth(spec["spec"])
    return 0


def _has_raising(spec):
    k = spec["k"]
    if k == "fn":
        return spec["f"].startswith("raise")
    if k == "selctx":
        return spec["p"] in ("gt1", "len2")
    if k in ("or", "and", "And", "Or"):
        return any(_has_raising(s) for s in spec["items"])
    if k in ("not", "sel"):
        return _has_raising(spec["spec"])
    return False


def judge_selector(case):
    spec, roe = case["spec"], case["roe"]
    sel = Selector(build(spec), raise_on_error=roe)
    classes = ["depth=%d" % _depth(spec), "roe=%s" % roe]
    raised = False
    vals = [mkvalue(v) for v in case["values"]]
    expected_kept = []
    filter_raises = False
    for v in vals:
        try:
            exp = ("ok", bool(ref(spec, v, roe)))
        except Exception as e:
            exp = ("exc", type(e).__name__)
            raised = True
        try:
            r = sel(v)
            got = ("ok", bool(r))
        except Exception as e:
            got = ("exc", type(e).__name__)
        if got != exp:
            raise Violation("selector-differs-from-reference-evaluator",
                            "spec %s raise_on_error=%r value %r: got %r, expected %r" % (
                                short(spec, 500), roe, v, got, exp))
        if exp[0] == "exc":
            filter_raises = True
        elif exp[1] and not filter_raises:
            expected_kept.append(v)
    # Filter keeps exactly the selected values (same objects, same order)
    if not filter_raises:
        flt = Filter(Selector(build(spec), raise_on_error=roe))
        kept = list(flt.run(iter(vals)))
        if len(kept) != len(expected_kept) or any(a is not b for a, b in zip(kept, expected_kept)):
            raise Violation("filter-run-keeps-wrong-values",
                            "spec %s: kept %r expected %r" % (short(spec, 400), kept, expected_kept))
        col = []

        class C(object):
            def fill(self, v):
                col.append(v)
        flt2 = Filter(Selector(build(spec), raise_on_error=roe))
        c = C()
        for v in vals:
            flt2.fill_into(c, v)
        if len(col) != len(expected_kept) or any(a is not b for a, b in zip(col, expected_kept)):
            raise Violation("filter-fill_into-keeps-wrong-values",
                            "spec %s: filled %r expected %r" % (short(spec, 400), col, expected_kept))
        kept3 = list(Sequence(Filter(build(spec) if spec["k"] in ("sel", "not", "selctx") or True else None)).run(list(vals))) \
            if roe and spec["k"] not in ("selctx",) and not _has_raising(spec) else None
        if kept3 is not None and (len(kept3) != len(expected_kept) or any(a is not b for a, b in zip(kept3, expected_kept))):
            raise Violation("filter-from-spec-keeps-wrong-values",
                            "Filter(spec) %s: kept %r expected %r" % (short(spec, 400), kept3, expected_kept))
    if raised:
        classes.append("raises")
    nt = _depth(spec) >= 2 and _has_raising(spec)
    return {"nontrivial": nt, "classes": classes}


def strat_invalid(tier):
    junk = st.sampled_from([None, 1, 2.5, {"a": 1}, {"s": 1}])
    return st.fixed_dictionaries({"junk": junk, "wrap": st.sampled_from(["bare", "list", "tuple", "nested", "not", "filter"])})


def judge_invalid(case):
    j = copy.deepcopy(case["junk"])
    w = case["wrap"]
    try:
        if w == "bare":
            Selector(j)
        elif w == "list":
            Selector(["a", j])
        elif w == "tuple":
            Selector((int, j))
        elif w == "nested":
            Selector([("a", [j])])
        elif w == "not":
            Not(j)
        elif w == "filter":
            Filter(j)
    except LenaTypeError:
        return {"nontrivial": True, "classes": [w]}
    raise Violation("invalid-selector-accepted", "%r" % (case,))


# ---------------------------------------------------------------- GroupBy --

GB_KEYS = ["a", "b", "c"]
gb_leaf = st.one_of(st.integers(2, 5), st.sampled_from(["s", "t"]), st.none(),
                    st.booleans(), st.lists(st.integers(2, 3), max_size=2))


@st.composite
def listed_tree(draw):
    """A valid alternating include/exclude specification as a list of
    (path, kind) with kind alternating along every chain."""
    root_kind = draw(st.sampled_from(["g", "m"]))
    listed = [((), root_kind)]

    def add_children(prefix, kind, depth):
        if depth >= 3:
            return
        n = draw(st.integers(0, 2))
        keys = draw(st.permutations(GB_KEYS))[:n]
        for k in keys:
            # a listed child must be of the opposite kind and may be
            # separated by unlisted intermediate levels
            extra = draw(st.integers(0, 1)) if depth < 2 else 0
            path = prefix + (k,)
            if extra:
                path = path + (draw(st.sampled_from(GB_KEYS)),)
            other = "m" if kind == "g" else "g"
            listed.append((path, other))
            add_children(path, other, len(path))
    add_children((), root_kind, 0)
    return listed


def _region(path, listed):
    """kind of the longest listed prefix of path"""
    best = None
    for lp, kind in listed:
        if len(lp) <= len(path) and tuple(path[:len(lp)]) == tuple(lp):
            if best is None or len(lp) > len(best[0]):
                best = (lp, kind)
    return best[1]


def _all_paths(d, prefix=()):
    """(path, is_dict, value) for all key paths"""
    out = []
    for k, v in d.items():
        p = prefix + (k,)
        if isinstance(v, dict):
            out.append((p, True, None))
            out.extend(_all_paths(v, p))
        else:
            out.append((p, False, v))
    return out


def sig_atomic(ctx, listed):
    return sorted((".".join(p), gen_repr(v)) for p, isd, v in _all_paths(ctx)
                  if not isd and _region(p, listed) == "g")


def sig_all(ctx, listed):
    return sorted((".".join(p), "<dict>" if isd else gen_repr(v))
                  for p, isd, v in _all_paths(ctx) if _region(p, listed) == "g")


def gen_repr(v):
    return "%s:%r" % (type(v).__name__, v)


@st.composite
def groupby_case(draw):
    listed = draw(listed_tree())
    # atomic entries: map path -> value; build so that listed paths and
    # their neighbourhoods are populated
    interesting = [lp for lp, _ in listed if lp]
    pool = set()
    for lp in interesting:
        pool.add(lp)
        pool.add(lp + ("x",))
        for i in range(1, len(lp)):
            pool.add(lp[:i] + ("y",))
            pool.add(lp[:i])
    for k in GB_KEYS:
        pool.add((k,))
        pool.add((k, "z"))
    pool = sorted(pool)

    def make_ctx():
        chosen = draw(st.lists(st.sampled_from(pool), max_size=5, unique=True))
        d = {}
        for p in sorted(chosen, key=len):
            # set leaf at p unless p already passes through a leaf
            cur = d
            ok = True
            for k in p[:-1]:
                if k not in cur:
                    cur[k] = {}
                if not isinstance(cur[k], dict):
                    ok = False
                    break
                cur = cur[k]
            if ok and not isinstance(cur.get(p[-1]), dict):
                cur[p[-1]] = draw(gb_leaf)
        return _prune(d)

    base = make_ctx()
    ctxs = [base]
    n = draw(st.integers(1, 7))
    for _ in range(n):
        how = draw(st.integers(0, 5))
        if how == 0:
            ctxs.append(make_ctx())
            continue
        src = copy.deepcopy(draw(st.sampled_from(ctxs)))
        if how == 1:
            ctxs.append(src)   # exact duplicate
            continue
        leaves = [(p, v) for p, isd, v in _all_paths(src) if not isd]
        if how in (2, 3) and leaves:
            p, v = draw(st.sampled_from(leaves))
            parent = gen.ref_get(src, list(p[:-1]))[1]
            if how == 2:
                parent[p[-1]] = draw(gb_leaf)
            else:
                del parent[p[-1]]
        else:
            p = draw(st.sampled_from(pool))
            cur = src
            ok = True
            for k in p[:-1]:
                if k not in cur:
                    cur[k] = {}
                if not isinstance(cur[k], dict):
                    if draw(st.booleans()):
                        cur[k] = {}
                    else:
                        ok = False
                        break
                cur = cur[k]
            if ok:
                cur[p[-1]] = draw(gb_leaf)   # may replace a dict by a scalar
        ctxs.append(_prune(src))
    with_data = draw(st.booleans())
    return {"listed": [[list(p), k] for p, k in listed], "contexts": ctxs,
            "with_data": with_data, "shuffle_keys": draw(st.booleans()),
            "second_round": draw(st.integers(0, 3)) > 0, "rotate": draw(st.integers(0, 7)),
            "key_order": draw(st.sampled_from(["listed", "reversed", "longest_first"])), "spelling": draw(st.sampled_from([0, 0, 1, 2, 3, 4]))}


def _prune(d):
    """remove empty dictionaries"""
    for k in list(d):
        if isinstance(d[k], dict):
            _prune(d[k])
            if not d[k]:
                del d[k]
    return d


def _reorder(d):
    if isinstance(d, dict):
        return dict((k, _reorder(d[k])) for k in sorted(d, reverse=True))
    return d


def judge_groupby(case):
    listed = [(tuple(p), k) for p, k in case["listed"]]
    group_by = tuple(".".join(p) for p, k in listed if k == "g")
    merge = tuple(".".join(p) for p, k in listed if k == "m")
    # the order in which keys are listed must not matter (longer keys before their prefixes etc.)
    order = case.get("key_order", "listed")
    if order == "reversed":
        group_by, merge = group_by[::-1], merge[::-1]
    elif order == "longest_first":
        group_by = tuple(sorted(group_by, key=lambda k_: (-len(k_), k_)))
        merge = tuple(sorted(merge, key=lambda k_: (-len(k_), k_)))
    # spellings of the same key sets: a single key as a bare string, an empty set as (), [], set()
    sp = case.get("spelling", 0)
    gb_arg, m_arg = group_by, merge
    if sp and len(group_by) == 1:
        gb_arg = group_by[0]
    if sp and len(merge) == 1 and sp % 2:
        m_arg = merge[0]
    if sp and not merge:
        m_arg = [(), [], set(), frozenset()][sp % 4]
    if sp and not group_by and merge:
        gb_arg = [(), [], set(), frozenset()][sp % 4]
    gb = GroupBy(group_by=gb_arg, merge=m_arg)
    res = _judge_round(gb, case, case["contexts"], listed, group_by, merge)
    # a second round on the same element after reset(): it starts with the context that was filled last
    # (and with one of each group), and is judged like the first
    if case.get("second_round", True):
        ctxs = case["contexts"]
        rot = case.get("rotate", 1) % len(ctxs)
        second = [ctxs[-1]] + ctxs[rot:] + ctxs[:rot]
        gb.reset()
        if len(gb.groups):
            raise Violation("groupby-reset-keeps-groups", "%r" % (gb.groups,))
        _judge_round(gb, case, second, listed, group_by, merge, what="after reset(): ")
        res["classes"].append("second-round-after-reset")
    return res


def _judge_round(gb, case, contexts, listed, group_by, merge, what=""):
    vals = []
    for i, c in enumerate(contexts):
        c = copy.deepcopy(c)
        if case["shuffle_keys"] and i % 2:
            c = _reorder(c)
        vals.append((i, c))
    for v in vals:
        gb.fill(v)
    groups = list(gb.groups.values())
    computed = list(gb.compute())
    if [list(g) for g in computed] != [list(g) for g in groups]:
        raise Violation("groupby-compute-differs-from-groups", "%r vs %r" % (computed, groups))
    # every value exactly once, arrival order inside groups
    seen = []
    where = {}
    for gi, g in enumerate(groups):
        idx = [v[0] for v in g]
        if idx != sorted(idx):
            raise Violation("groupby-arrival-order-not-preserved", "%r" % (g,))
        for v in g:
            if v is not vals[v[0]]:
                raise Violation("groupby-does-not-store-the-filled-value", "%r" % (v,))
            where[v[0]] = gi
            seen.append(v[0])
    if sorted(seen) != list(range(len(vals))):
        raise Violation("groupby-loses-or-duplicates-values", "%s%r of %d values" % (what, seen, len(vals)))
    ambiguous = 0
    decided = 0
    differing_one = False
    for i, j in itertools.combinations(range(len(vals)), 2):
        ci, cj = contexts[i], contexts[j]
        same_a = sig_atomic(ci, listed) == sig_atomic(cj, listed)
        same_b = sig_all(ci, listed) == sig_all(cj, listed)
        if same_a != same_b:
            ambiguous += 1
            continue
        decided += 1
        got = where[i] == where[j]
        if got != same_a:
            raise Violation(
                "groupby-partition-differs-from-reference",
                "%sgroup_by=%r merge=%r: contexts %r and %r are %s but should be %s" % (
                    what, group_by, merge, ci, cj,
                    "grouped together" if got else "in different groups",
                    "together" if same_a else "apart"))
        if ci != cj:
            differing_one = True
    return {"nontrivial": decided >= 1 and differing_one and len(listed) >= 2,
            "classes": ["listed=%d" % len(listed),
                        "ambiguous-pairs" if ambiguous else "no-ambiguous-pairs",
                        "groups=%d" % min(len(groups), 4)]}


def strat_gb_invalid(tier):
    k = st.sampled_from(["", "a", "a.b", "b", "a.b.c"])
    return st.fixed_dictionaries({"group_by": st.lists(k, max_size=3, unique=True),
                                  "merge": st.lists(k, max_size=3, unique=True),
                                  "unserializable": st.booleans()})


def _valid_spec(group_by, merge):
    """alternation rule: '' in exactly one; every listed key's nearest listed
    proper ancestor has the opposite kind; no key in both."""
    g, m = set(group_by), set(merge)
    if ("" in g) + ("" in m) != 1:
        return False
    if g & m:
        return False
    listed = [(tuple(x.split(".")) if x else (), "g") for x in g] + \
             [(tuple(x.split(".")) if x else (), "m") for x in m]
    for p, k in listed:
        if not p:
            continue
        anc = [(q, kk) for q, kk in listed if len(q) < len(p) and p[:len(q)] == q]
        q, kk = max(anc, key=lambda t: len(t[0]))
        if kk == k:
            return False
    return True


def judge_gb_invalid(case):
    g, m = tuple(case["group_by"]), tuple(case["merge"])
    if not g and not m:
        return {"nontrivial": False, "classes": ["default"]}
    if set(g) & set(m):
        # the same key in both sets: the statement does not say whether
        # this must be rejected (the code accepts it and excludes the key)
        return {"nontrivial": False, "classes": ["key-in-both-skipped"]}
    valid = _valid_spec(g, m)
    root_ok = (("" in g) + ("" in m)) == 1
    try:
        gb = GroupBy(group_by=g, merge=m)
    except LenaValueError:
        if valid:
            raise Violation("valid-groupby-specification-rejected", "%r" % (case,))
        return {"nontrivial": True, "classes": ["invalid-rejected"]}
    if not root_ok:
        raise Violation("groupby-root-key-rule-not-enforced",
                        "the empty key must be in exactly one of group_by and merge: %r" % (case,))
    if not valid:
        # redundant keys (same kind as their nearest listed ancestor) may
        # be accepted; the statement only quantifies over accepted sets
        return {"nontrivial": False, "classes": ["redundant-accepted"]}
    if case["unserializable"] and "" in g and not m:
        try:
            gb.fill((1, {"a": set([1])}))
        except LenaValueError:
            return {"nontrivial": True, "classes": ["unserializable-rejected"]}
        raise Violation("unserializable-context-accepted", "%r" % (case,))
    return {"nontrivial": False, "classes": ["valid"]}


CHECKS = [
    Check("selectors", judge_selector, strategy=selector_case, quick=8000, thorough=200000,
          rule="selector specs nested to depth 3 over strings, classes, total/raising callables, SelectContext (3 key notations), "
               "lists, tuples, Not and ready-made Selectors, both raise_on_error settings at every level, 1-6 values each; "
               "Filter.run / fill_into keep exactly the selected objects. Non-trivial = depth>=2 with a raising leaf."),
    Check("selector_invalid", judge_invalid, strategy=strat_invalid, quick=120, thorough=600,
          rule="invalid specifications raise LenaTypeError."),
    Check("groupby", judge_groupby, strategy=lambda tier: groupby_case(), quick=5000, thorough=120000,
          rule="valid alternating group_by/merge key trees over {a,b,c} depth<=3, 2-8 contexts derived from each other by point mutations "
               "(change/delete/add an atomic entry, scalars where a dictionary is expected); pairwise same-group iff reference signatures equal. "
               "Non-trivial = >=2 listed keys and a decided pair of differing contexts."),
    Check("groupby_invalid", judge_gb_invalid, strategy=strat_gb_invalid, quick=600, thorough=6000,
          rule="invalid key sets raise LenaValueError, valid ones are accepted; unserializable contexts raise LenaValueError."),
]


from .. import covfuzz  # noqa
CHECKS.append(covfuzz.check(CHECKS, "harness.props.c15", "selectors", quick=4000, thorough=200000))
CHECKS.append(covfuzz.check(CHECKS, "harness.props.c15", "groupby", quick=3000, thorough=100000))

"""C09 - Accumulators yield the documented aggregate; reset() equals a fresh element."""
import bisect
import copy
import math
from fractions import Fraction

from harness.core import Check, Violation, short
from hypothesis import strategies as st

import lena.flow
from lena.core import LenaZeroDivisionError, LenaException
from lena.flow import Count, StoreFilled, GroupBy
from lena.math import Sum, DSum, Mean, VarianceMeanCount, Vectorize
from lena.structures import Histogram

PROPERTY = "C09"
LEVEL = "exploration"
RULE = ("histories fill/compute/reset over every framework accumulator with a reset method; "
        "independent aggregates (Fraction, bisect histogram, component-wise) and lock-step "
        "comparison with a freshly constructed twin after every reset.")
ASSUMPTIONS = [
    "elements are built with default start values (Sum(total=..)/Count(count=..) are documented to reset to zero)",
    "VarianceMeanCount is judged with a forward error bound of the naive formula, not exact equality",
    "Graph (keeps its learned scale by design) and Vectorize over inner elements without reset are left out",
]

EPS = 2.0 ** -52

ctxs = st.one_of(st.none(), st.dictionaries(
    st.sampled_from(["a", "b", "count"]),
    st.one_of(st.integers(0, 3), st.sampled_from(["s", None]),
              st.fixed_dictionaries({"k": st.lists(st.integers(0, 2), max_size=2)})),
    max_size=2))

small_ints = st.integers(-20, 20)
nice_floats = st.one_of(st.floats(-1e3, 1e3, allow_nan=False),
                        st.sampled_from([0.1, 0.2, 0.3, 1e16, -1e16, 1.0, 1e-16, 3.5, 1e100, -1e100, 1e-100, 5e-324, 0.5]))
huge_floats = st.sampled_from([1e300, -1e300, 1e-300, -1e-300, 1e200, 1.5e-200, 2.0 ** 1000, 2.0 ** -1000])


@st.composite
def el_config(draw):
    kind = draw(st.sampled_from(["Count", "Sum", "DSum", "Mean", "VMC", "Vectorize", "VectMixed",
                                 "StoreFilled", "GroupBy", "Histogram", "DSum", "Histogram"]))
    cfg = {"el": kind}
    if kind == "Count":
        cfg["name"] = draw(st.sampled_from(["count", "n"]))
    elif kind == "Mean":
        cfg["sum"] = draw(st.sampled_from(["none", "Sum", "DSum"]))
        cfg["pass_on_empty"] = draw(st.booleans())
    elif kind == "VMC":
        cfg["sums"] = draw(st.sampled_from(["default", "Sum", "DSum"]))
        cfg["corrected"] = draw(st.booleans())
        cfg["pass_on_empty"] = draw(st.booleans())
    elif kind == "Vectorize":
        cfg["inner"] = draw(st.sampled_from(["Sum", "DSum", "Mean", "Count"]))
        cfg["dim"] = draw(st.integers(1, 3))
        cfg["list_form"] = draw(st.booleans())
    elif kind == "VectMixed":
        # a list of different accumulators: their compute() may yield different numbers of results
        cfg["inners"] = draw(st.lists(st.sampled_from(["Sum", "Store1", "MeanPass", "Store1"]), min_size=1, max_size=3))
    elif kind == "StoreFilled":
        cfg["group"] = draw(st.booleans())
    elif kind == "GroupBy":
        cfg["args"] = draw(st.sampled_from(["default", "default", "merge_nothing", "merge_nothing_list"]))
    elif kind == "Histogram":
        dim = draw(st.sampled_from([1, 1, 2]))
        edges = []
        for _ in range(dim):
            e = sorted(draw(st.sets(st.one_of(st.integers(-5, 5), st.floats(-5, 5, allow_nan=False)),
                                    min_size=2, max_size=5)))
            out = []
            for v in e:
                if not out or v > out[-1]:
                    out.append(v)
            edges.append(out if len(out) >= 2 else [0, 1])
        cfg["edges"] = edges
        cfg["init"] = draw(st.sampled_from(["plain", "bins", "make_bins", "initial_value"]))
        cfg["init_val"] = draw(st.integers(0, 3))
    return cfg


def data_strat(cfg, numbers):
    kind = cfg["el"]
    if kind == "Vectorize":
        return st.lists(numbers, min_size=cfg["dim"], max_size=cfg["dim"])
    if kind == "VectMixed":
        return st.lists(numbers, min_size=len(cfg["inners"]), max_size=len(cfg["inners"]))
    if kind == "Histogram":
        def coord(e):
            return st.one_of(st.sampled_from(e), st.floats(e[0] - 1, e[-1] + 1, allow_nan=False),
                             st.sampled_from([e[0] - 2, e[-1] + 2]))
        if len(cfg["edges"]) == 1:
            return coord(cfg["edges"][0])
        return st.tuples(*[coord(e) for e in cfg["edges"]]).map(list)
    if kind in ("StoreFilled", "GroupBy"):
        return st.one_of(numbers, st.sampled_from(["s", None]), st.lists(small_ints, max_size=2))
    return numbers


@st.composite
def history_case(draw, big=False):
    cfg = draw(el_config())
    numkind = draw(st.sampled_from(["int", "float", "float", "huge"]))
    if cfg["el"] == "VMC" and draw(st.integers(0, 3)) == 0:
        numkind = "offset"      # a large common magnitude and a small spread: squares beyond 2**53
    if cfg["el"] in ("Count", "StoreFilled", "GroupBy", "Histogram", "VMC"):
        # (VarianceMeanCount squares its input: 1e300**2 overflows)
        numkind = "int" if numkind == "huge" else numkind
    numbers = {"int": small_ints, "float": nice_floats, "offset": st.integers(10 ** 9 - 20, 10 ** 9 + 20),
               "huge": st.one_of(huge_floats, nice_floats)}[numkind]
    max_ops = 12 if numkind == "huge" else (80 if big else 30)
    ops = []
    n = draw(st.integers(0, max_ops))
    nfill_huge = 0
    for _ in range(n):
        r = draw(st.integers(0, 9))
        if r <= 5:
            ops.append(["fill", draw(data_strat(cfg, numbers)), draw(ctxs)])
        elif r <= 7:
            ops.append(["compute"])
        else:
            ops.append(["reset"])
    ops.append(["compute"])
    return {"cfg": cfg, "ops": ops, "numkind": numkind}


class _MakeBins(object):
    def __init__(self, edges, val):
        self.edges, self.val = edges, val

    def __call__(self):
        return _bins(self.edges, self.val)


def _bins(edges, val):
    if len(edges) == 1:
        return [val] * (len(edges[0]) - 1)
    return [[val] * (len(edges[1]) - 1) for _ in range(len(edges[0]) - 1)]


def _inner(name):
    if name == "Sum":
        return Sum()
    if name == "DSum":
        return DSum()
    if name == "Mean":
        return Mean()
    if name == "Count":
        return Count()
    raise AssertionError(name)


def build(cfg):
    k = cfg["el"]
    if k == "Count":
        return Count(cfg["name"])
    if k == "Sum":
        return Sum()
    if k == "DSum":
        return DSum()
    if k == "Mean":
        s = {"none": None, "Sum": Sum(), "DSum": DSum()}[cfg["sum"]]
        return Mean(sum_seq=s, pass_on_empty=cfg["pass_on_empty"])
    if k == "VMC":
        if cfg["sums"] == "default":
            return VarianceMeanCount(corrected=cfg["corrected"], pass_on_empty=cfg["pass_on_empty"])
        mk = Sum if cfg["sums"] == "Sum" else DSum
        return VarianceMeanCount(mk(), mk(), corrected=cfg["corrected"], pass_on_empty=cfg["pass_on_empty"])
    if k == "Vectorize":
        if cfg["list_form"]:
            return Vectorize([_inner(cfg["inner"]) for _ in range(cfg["dim"])])
        return Vectorize(_inner(cfg["inner"]), dim=cfg["dim"])
    if k == "VectMixed":
        mk = {"Sum": Sum, "Store1": lambda: StoreFilled(yield_as_a_group=False), "MeanPass": lambda: Mean(pass_on_empty=True)}
        return Vectorize([mk[i]() for i in cfg["inners"]])
    if k == "StoreFilled":
        return StoreFilled(yield_as_a_group=cfg["group"])
    if k == "GroupBy":
        a = cfg.get("args", "default")
        if a == "merge_nothing":
            return GroupBy("", merge=tuple())
        if a == "merge_nothing_list":
            return GroupBy(merge=[])
        if a == "by_a":
            return GroupBy("a")
        if a == "by_a_merge_b":
            return GroupBy("", merge=("b",))
        return GroupBy()
    if k == "Histogram":
        edges = copy.deepcopy(cfg["edges"])
        e = edges if len(edges) > 1 else edges[0]
        if cfg["init"] == "plain":
            return Histogram(e)
        if cfg["init"] == "bins":
            return Histogram(e, bins=_bins(edges, cfg["init_val"]))
        if cfg["init"] == "make_bins":
            return Histogram(e, make_bins=_MakeBins(edges, cfg["init_val"]))
        return Histogram(e, initial_value=cfg["init_val"])
    raise AssertionError(k)


def _norm(v):
    """(data, context) view of a result"""
    return lena.flow.get_data_context(v)


def _frac(x):
    return Fraction(x)


def _fold(xs):
    """left fold with + starting from 0 (Python >= 3.12 sum() is compensated
    for floats; "Python's sum" is read as ordinary repeated addition)"""
    t = 0
    for x in xs:
        t += x
    return t


def expected(cfg, filled):
    """Independent aggregate for the values filled since the last reset.
    Returns ('values', [(data, ctx) ...]) or ('exc', type) ; data may be a
    callable predicate for approximate comparisons."""
    k = cfg["el"]
    datas = [d for d, c in filled]
    last_ctx = copy.deepcopy(filled[-1][1]) if filled and filled[-1][1] else {}
    n = len(filled)
    if k == "Count":
        c = dict(last_ctx)
        c[cfg["name"]] = n
        return ("values", [(n, c)])
    if k == "Sum":
        return ("values", [(_fold(datas), last_ctx)])
    if k == "DSum":
        tot = sum((_frac(d) for d in datas), Fraction(0))
        return ("values", [(lambda got: Fraction(got) == tot and float(got) == math.fsum(datas), last_ctx)])
    if k == "Mean":
        if n == 0:
            return ("values", []) if cfg["pass_on_empty"] else ("exc", LenaZeroDivisionError)
        if cfg["sum"] == "DSum":
            s = float(sum((_frac(d) for d in datas), Fraction(0)))
        else:
            s = float(_fold(datas))
        return ("values", [(s / float(n), last_ctx)])
    if k == "VMC":
        if n == 0:
            return ("values", []) if cfg["pass_on_empty"] else ("exc", LenaZeroDivisionError)
        if cfg["corrected"] and n == 1:
            return ("exc", LenaZeroDivisionError)
        fs = [_frac(d) for d in datas]
        mean = sum(fs, Fraction(0)) / n
        mean_sq = sum((f * f for f in fs), Fraction(0)) / n
        var = mean_sq - mean * mean
        corr = Fraction(n, n - 1) if cfg["corrected"] else Fraction(1)
        var *= corr
        scale = float(mean_sq + mean * mean) * float(corr)
        tol = 8 * EPS * max(n, 2) * scale + 1e-300
        if cfg["sums"] == "DSum" and all(isinstance(d, int) and not isinstance(d, bool) for d in datas):
            # integers are squared exactly and DSum adds exactly: what remains is the 28-digit Decimal
            # arithmetic of the two means and the conversion of the result
            tol = 1e-22 * scale + 4 * EPS * abs(float(var)) + 1e-300

        def ok(got):
            try:
                gv, gm, gn = got
            except Exception:
                return False
            if gn != n:
                return False
            if abs(float(gm) - float(mean)) > 4 * EPS * n * max(abs(float(x)) for x in fs) + 1e-300:
                return False
            return abs(float(gv) - float(var)) <= tol
        return ("values", [(ok, last_ctx)])
    if k == "Vectorize":
        comps = []
        for i in range(cfg["dim"]):
            col = [d[i] for d in datas]
            inner = cfg["inner"]
            if inner == "Sum":
                comps.append(_fold(col))
            elif inner == "DSum":
                comps.append(("frac", sum((_frac(x) for x in col), Fraction(0))))
            elif inner == "Mean":
                if n == 0:
                    return ("exc", LenaZeroDivisionError)
                comps.append(float(_fold(col)) / float(n))
            elif inner == "Count":
                comps.append(("count", n))

        def ok(got):
            if not isinstance(got, tuple) or len(got) != len(comps):
                return False
            for g, e in zip(got, comps):
                if isinstance(e, tuple) and e[0] == "frac":
                    if Fraction(g) != e[1]:
                        return False
                elif isinstance(e, tuple) and e[0] == "count":
                    # Count yields (count, context)
                    if _norm(g)[0] != e[1]:
                        return False
                elif g != e:
                    return False
            return True
        return ("values", [(ok, last_ctx)])
    if k == "VectMixed":
        cols = []
        for i, inner in enumerate(cfg["inners"]):
            col = [d[i] for d in datas]
            if inner == "Sum":
                cols.append([_fold(col)])
            elif inner == "Store1":
                cols.append(list(col))
            else:
                cols.append([float(_fold(col)) / float(n)] if n else [])
        rows = max(len(c) for c in cols)
        # the longest output, the others padded with None (documented)
        return ("values", [(tuple(c[j] if j < len(c) else None for c in cols), last_ctx) for j in range(rows)])
    if k == "StoreFilled":
        vals = [_val(d, c) for d, c in filled]
        if cfg["group"]:
            return ("raw", [vals])
        return ("raw", vals)
    if k == "GroupBy":
        vals = [_val(d, c) for d, c in filled]
        if cfg.get("args", "default") == "default":
            # default arguments: everything in one group
            return ("raw", [vals] if vals else [])
        # merge nothing: the key is the entire context; groups in order of first arrival
        keys, groups = [], []
        for i, (d, c) in enumerate(filled):
            key = c or {}
            if key in keys:
                groups[keys.index(key)].append(i)
            else:
                keys.append(key)
                groups.append([i])
        return ("raw_groups", groups)
    if k == "Histogram":
        edges = cfg["edges"]
        init = 0 if cfg["init"] == "plain" else cfg["init_val"]
        ref = {}
        n_out = 0
        shape = [len(e) - 1 for e in edges]
        for d in datas:
            c = d if len(edges) > 1 else [d]
            idx = tuple(bisect.bisect_right(e, v) - 1 for e, v in zip(edges, c))
            if all(0 <= i < s for i, s in zip(idx, shape)):
                ref[idx] = ref.get(idx, 0) + 1
            else:
                n_out += 1

        def ok(h):
            bins = h.bins
            if len(edges) == 1:
                got = dict(((i,), b) for i, b in enumerate(bins))
            else:
                got = dict(((i, j), b) for i, row in enumerate(bins) for j, b in enumerate(row))
            want = dict((i, init + ref.get(i, 0)) for i in got)
            if len(got) != shape[0] * (shape[1] if len(shape) > 1 else 1):
                return False
            return got == want and not (set(ref) - set(got)) and h.n_out_of_range == n_out \
                and h.edges == (edges if len(edges) > 1 else edges[0])
        return ("values", [(ok, last_ctx)])
    raise AssertionError(k)


def _val(d, c):
    return d if c is None else (d, c)


def _run_compute(el):
    try:
        return ("values", list(el.compute()))
    except LenaException as e:
        return ("exc", type(e))


def _describe(res):
    return short(res, 400)


def judge_history(case):
    cfg = case["cfg"]
    el = build(cfg)
    twin = None
    filled = []          # (data, ctx) since the last reset, as the model sees them
    raw_real = []        # the actual value objects filled into el since reset
    classes = [cfg["el"], case["numkind"]]
    had_reset_after_fill = False
    nontrivial = False
    n_compute = 0
    for op in case["ops"]:
        if op[0] == "fill":
            d, c = op[1], op[2]
            if cfg["el"] in ("Vectorize",) and isinstance(d, list):
                d = tuple(d)
            v_real = _val(copy.deepcopy(d), copy.deepcopy(c))
            el.fill(v_real)
            raw_real.append(v_real)
            if twin is not None:
                twin.fill(_val(copy.deepcopy(d), copy.deepcopy(c)))
            filled.append((d, c))
        elif op[0] == "reset":
            if filled:
                had_reset_after_fill = True
            el.reset()
            twin = build(cfg)
            filled = []
            raw_real = []
        else:
            n_compute += 1
            got = _run_compute(el)
            exp = expected(cfg, filled)
            _compare(cfg, got, exp, raw_real, "aggregate", filled)
            if twin is not None:
                tw = _run_compute(twin)
                _compare_twin(cfg, got, tw, filled)
                if had_reset_after_fill and filled:
                    nontrivial = True
    if cfg["el"] == "DSum" and len(filled) >= 2:
        datas = [d for d, c in filled]
        if all(isinstance(x, float) for x in datas):
            naive = 0.0
            for x in datas:
                naive += x
            if naive != math.fsum(datas):
                nontrivial = True
                classes.append("naive-sum-differs")
    classes.append("reset-after-fill" if had_reset_after_fill else "no-reset-after-fill")
    return {"nontrivial": nontrivial, "classes": classes}


def _compare(cfg, got, exp, raw_real, what, filled):
    if exp[0] == "exc":
        if got[0] != "exc" or not issubclass(got[1], exp[1]):
            raise Violation("accumulator-missing-exception",
                            "%s after %s: expected %s, got %s" % (cfg, short(filled), exp[1].__name__, _describe(got)))
        return
    if got[0] == "exc":
        raise Violation("accumulator-unexpected-exception",
                        "%s after %s: %s" % (cfg, short(filled), got[1].__name__))
    res = got[1]
    if exp[0] == "raw_groups":
        want = [[raw_real[i] for i in idxs] for idxs in exp[1]]
        if len(res) != len(want) or any(len(g) != len(w) or any(a is not b for a, b in zip(g, w)) for g, w in zip(res, want)):
            raise Violation("accumulator-does-not-yield-filled-values",
                            "%s: groups %s, expected the filled values grouped as %s; filled %s" % (cfg, _describe(res), exp[1], short(filled)))
        return
    if exp[0] == "raw":
        # StoreFilled / GroupBy: the filled values themselves
        want = exp[1]
        ok = len(res) == len(want)
        if ok:
            if cfg["el"] == "GroupBy" or cfg.get("group"):
                for g, w in zip(res, want):
                    if len(g) != len(raw_real) or any(a is not b for a, b in zip(g, raw_real)):
                        ok = False
            else:
                ok = all(a is b for a, b in zip(res, raw_real))
        if not ok:
            raise Violation("accumulator-does-not-yield-filled-values",
                            "%s: %s, filled %s" % (cfg, _describe(res), short(filled)))
        return
    want = exp[1]
    if len(res) != len(want):
        raise Violation("accumulator-result-count", "%s after %s: %s" % (cfg, short(filled), _describe(res)))
    for r, (wd, wc) in zip(res, want):
        d, c = _norm(r)
        good = wd(d) if callable(wd) else (d == wd and type(d) is type(wd) or d == wd)
        if not good:
            raise Violation("accumulator-wrong-aggregate",
                            "%s after filling %s yields %s%s" % (
                                cfg, short(filled, 500), _describe(d),
                                "" if callable(wd) else ", expected %r" % (wd,)))
        if c != wc:
            raise Violation("accumulator-wrong-context",
                            "%s after filling %s yields context %r, expected %r" % (cfg, short(filled, 300), c, wc))


def _eq_results(cfg, a, b):
    if len(a) != len(b):
        return False
    for x, y in zip(a, b):
        dx, cx = _norm(x)
        dy, cy = _norm(y)
        if cx != cy:
            return False
        if cfg["el"] == "Histogram":
            if dx.bins != dy.bins or dx.edges != dy.edges or dx.n_out_of_range != dy.n_out_of_range \
                    or dx.scale() != dy.scale():
                return False
        elif dx != dy:
            return False
    return True


def _compare_twin(cfg, got, tw, filled):
    if got[0] != tw[0]:
        raise Violation("reset-differs-from-fresh-element",
                        "%s: after reset and %s the element gives %s, a fresh one %s" % (
                            cfg, short(filled, 300), _describe(got), _describe(tw)))
    if got[0] == "exc":
        if got[1] is not tw[1]:
            raise Violation("reset-differs-from-fresh-element", "%s: %s vs %s" % (cfg, got[1], tw[1]))
        return
    if not _eq_results(cfg, got[1], tw[1]):
        raise Violation("reset-differs-from-fresh-element",
                        "%s: after reset and filling %s the element yields %s, a fresh element %s" % (
                            cfg, short(filled, 300), _describe(got[1]), _describe(tw[1])))


CHECKS = [
    Check("histories", judge_history, strategy=lambda tier: history_case() if tier != "thorough" else st.one_of(history_case(), history_case(big=True)), quick=4000, thorough=150000,
          rule="element configuration x history of 0-30 ops fill|compute|reset (ints, floats of mixed magnitude, vectors, coordinates; bare or with context); "
               "after every compute: independent aggregate and context of the last value; after a reset a fresh twin receives the same ops and must agree. "
               "Non-trivial = a reset after >=1 fill followed by fill+compute, or a float multiset where naive summation differs from the exact sum (DSum)."),
]


from .. import covfuzz  # noqa
CHECKS.append(covfuzz.check(CHECKS, "harness.props.c09", "histories", quick=3000, thorough=100000))

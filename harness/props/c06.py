"""C06 - Histogram fill: right cell, conserved weight."""
import bisect
import copy
import math
from fractions import Fraction

from harness import instr
import lena.structures.hist_functions
from harness.core import Check, Violation, short
from hypothesis import strategies as st

from lena.core import LenaValueError
from lena.structures import (histogram, Histogram, get_bin_on_value_1d,
                             get_bin_on_value)

PROPERTY = "C06"
LEVEL = "exploration"
RULE = ("edges (1-3 dim, nasty spacings) x coordinates (edges, float neighbours, "
        "far away, +-inf) x exact weights; oracle bisect_right-1, single-cell delta, "
        "exact weight conservation.")
ASSUMPTIONS = [
    "edges are strictly increasing finite numbers whose span max - min is finite (magnitudes up to 1.7e308 with one sign, up to 1e300 with both); no NaN coordinates",
    "weights are ints, Fractions or small dyadic floats so that every sum is exact",
]

INF = float("inf")
MAGS = [0, 1e-300, -1e-300, 5e-324, 1e-10, -1e-10, 1, -1, 1e10, -1e10, 1e300,
        -1e300, 2 ** 53, 2 ** 53 + 2, -2 ** 53, 10 ** 25, 1e25, 3, 2.5]


@st.composite
def axis_edges(draw, max_edges=12):
    k = draw(st.integers(2, max_edges))
    mode = draw(st.integers(0, 8))
    if mode == 8:
        # integers beyond 2**53 that no float represents (mixed with floats: Python compares int and float
        # exactly, while an int - float difference is rounded)
        base = draw(st.sampled_from([2 ** 53, -2 ** 53 - 40, 2 ** 60, 10 ** 17]))
        s = set(base + d for d in draw(st.sets(st.integers(0, 40), min_size=2, max_size=k)))
        if draw(st.booleans()):
            s = set(float(x) if draw(st.booleans()) else x for x in sorted(s))
    elif mode == 7:
        # magnitudes close to the largest float, one sign (the span max - min stays finite):
        # products like n_bins * (value - min) overflow although every difference is finite
        sgn = draw(st.sampled_from([1, -1]))
        s = set(sgn * x for x in draw(st.sets(st.one_of(
            st.floats(1e306, 1.7e308, allow_nan=False), st.sampled_from([1e307, 8.9e307, 9e307, 1e308, 1.5e308, 1.7e308])),
            min_size=2, max_size=k)))
        if draw(st.booleans()):
            s.add(0)
    elif mode == 0:
        s = draw(st.sets(st.integers(-20, 20), min_size=2, max_size=k))
    elif mode == 1:
        s = draw(st.sets(st.floats(-1e3, 1e3, allow_nan=False), min_size=2, max_size=k))
    elif mode == 2:
        # uniform mesh
        lo = draw(st.floats(-100, 100, allow_nan=False))
        w = draw(st.floats(1e-3, 50, allow_nan=False))
        s = set(lo + i * w / (k - 1) for i in range(k))
    elif mode == 3:
        # geometric, ratios up to 1e30
        x = draw(st.sampled_from([1e-300, 1e-30, 1e-3, 1.0, 7.0]))
        r = draw(st.sampled_from([1.5, 10.0, 1e5, 1e30]))
        sgn = draw(st.sampled_from([1, -1]))
        s = set()
        for _ in range(k):
            if abs(x) > 1e300:
                break
            s.add(sgn * x)
            x *= r
        if draw(st.booleans()):
            s.add(0)
    elif mode == 4:
        # cluster of adjacent floats
        x = draw(st.floats(-10, 10, allow_nan=False))
        s = {x}
        for _ in range(k - 1):
            x = math.nextafter(x, INF)
            s.add(x)
        if draw(st.booleans()):
            s.add(x + 1.0)
    elif mode == 5:
        s = draw(st.sets(st.sampled_from(MAGS), min_size=2, max_size=k))
    else:
        s = draw(st.sets(st.one_of(st.integers(-5, 5),
                                   st.floats(-5, 5, allow_nan=False)),
                         min_size=2, max_size=k))
    s = sorted(s)
    # remove values equal under == (e.g. 0 and 0.0, 1e25 and 10**25)
    out = []
    for v in s:
        if not out or v > out[-1]:
            out.append(v)
    if len(out) < 2:
        out = [0, 1]
    return out


@st.composite
def coordinate(draw, e):
    kind = draw(st.integers(0, 10))
    if kind <= 1:
        return draw(st.sampled_from(e))
    if kind == 10:
        x = draw(st.sampled_from(e))
        if abs(x) < 1e300:
            # the integer next to an edge / the float an integer edge rounds to
            return draw(st.sampled_from([int(x) + 1, int(x) - 1, int(x), float(x)]))
        return x
    if kind == 2:
        return math.nextafter(float(draw(st.sampled_from(e))), INF)
    if kind == 3:
        return math.nextafter(float(draw(st.sampled_from(e))), -INF)
    if kind == 4:
        i = draw(st.integers(0, len(e) - 2))
        return e[i] / 2 + e[i + 1] / 2
    if kind in (5, 6):
        lo, hi = float(e[0]), float(e[-1])
        return draw(st.floats(lo, hi, allow_nan=False))
    if kind == 7:
        return draw(st.sampled_from([e[0] - 1, e[-1] + 1, e[0] * 2 - 1, e[-1] * 2 + 1]))
    if kind == 8:
        return draw(st.sampled_from([INF, -INF, 1.7e308, -1.7e308]))
    return draw(st.sampled_from([2 ** 60, -2 ** 60, 10 ** 30, 0, 0.0, -0.0]))


def _enc_w(w):
    if isinstance(w, Fraction):
        return ["F", w.numerator, w.denominator]
    return w


def _dec_w(w):
    if isinstance(w, list):
        return Fraction(w[1], w[2])
    return w


@st.composite
def fill_case(draw, max_dim=3, max_fills=30, max_edges=12):
    dim = draw(st.sampled_from([1, 1, 2, 2, 3][:max_dim + 2]))
    me = max_edges if dim == 1 else (6 if dim == 2 else 4)
    edges = [draw(axis_edges(me)) for _ in range(dim)]
    wkind = draw(st.sampled_from(["one", "int", "frac", "dyadic"]))
    fills = []
    for _ in range(draw(st.integers(1, max_fills))):
        c = [draw(coordinate(e)) for e in edges]
        if wkind == "one":
            w = 1
        elif wkind == "int":
            w = draw(st.integers(-5, 5))
        elif wkind == "frac":
            w = _enc_w(Fraction(draw(st.integers(-9, 9)), draw(st.integers(1, 7))))
        else:
            w = draw(st.integers(-64, 64)) / 8.0
        fills.append([c, w])
    return {"edges": edges, "fills": fills, "wkind": wkind,
            "coord_as": draw(st.sampled_from(["list", "tuple", "same_list"]))}


def _ref_index(edges, c):
    return [bisect.bisect_right(e, v) - 1 for e, v in zip(edges, c)]


def _flat(bins, dim):
    """dict index-tuple -> content, by own index loops."""
    out = {}

    def rec(sub, idx, d):
        if d == dim:
            out[idx] = sub
            return
        for i, s in enumerate(sub):
            rec(s, idx + (i,), d + 1)
    rec(bins, (), 0)
    return out


def _nontrivial(edges, fills):
    for c, w in fills:
        for e, v in zip(edges, c):
            for x in e:
                if v == x or v == math.nextafter(float(x), INF) \
                        or v == math.nextafter(float(x), -INF):
                    return True
    if len(edges) >= 2:
        return True
    for e in edges:
        if len(e) >= 6:
            d = [b - a for a, b in zip(e, e[1:])]
            if max(d) > 2 * min(d):
                return True
    return False


def _judge_fill(case):
    edges = case["edges"]
    dim = len(edges)
    hedges = copy.deepcopy(edges if dim > 1 else edges[0])
    h = histogram(hedges)
    shape = tuple(len(e) - 1 for e in edges)
    total = 0
    classes = ["dim=%d" % dim, "w=" + case["wkind"]]
    n_out = 0
    point = []      # coord_as == "same_list": the caller keeps one list and changes it in place before every fill
    for c, w in case["fills"]:
        w = _dec_w(w)
        exp_idx = _ref_index(edges, c)
        # index functions
        for e, v, ei in zip(edges, c, exp_idx):
            got = get_bin_on_value_1d(v, e)
            if got != ei:
                raise Violation("bin-index-differs-from-bisect",
                                "get_bin_on_value_1d(%r, %r) = %r, expected %r" % (v, e, got, ei))
        arg = c[0] if dim == 1 else (tuple(c) if case["coord_as"] == "tuple" else list(c))
        if dim > 1 and case["coord_as"] == "same_list":
            point[:] = c
            arg = point
        got = get_bin_on_value(arg, hedges)
        if list(got) != exp_idx:
            raise Violation("md-bin-index-differs-from-bisect",
                            "get_bin_on_value(%r, %r) = %r, expected %r" % (arg, hedges, got, exp_idx))
        before = _flat(h.bins, dim)
        before_out = h.n_out_of_range
        if w == 1 and case["wkind"] == "one":
            h.fill(arg)
        else:
            h.fill(arg, w)
        after = _flat(h.bins, dim)
        inside = all(0 <= i < n for i, n in zip(exp_idx, shape))
        if inside:
            before[tuple(exp_idx)] = before[tuple(exp_idx)] + w
            classes.append("inside")
        else:
            before_out = before_out + w
            n_out += 1
            classes.append("outside")
        if after != before or h.n_out_of_range != before_out:
            raise Violation("fill-changes-wrong-cell",
                            "fill(%r, %r) into edges %r: expected cell %r (inside=%r); bins %r n_out %r, expected bins %r n_out %r"
                            % (arg, w, hedges, exp_idx, inside, h.bins, h.n_out_of_range,
                               sorted(before.items()), before_out))
        if set(after) != set(before) or len(after) != _prod(shape):
            raise Violation("fill-changes-shape", "%r" % (h.bins,))
        total = total + w
        s = sum(after.values()) + h.n_out_of_range
        if s != total:
            raise Violation("weight-not-conserved",
                            "sum(bins)+n_out_of_range = %r, filled weight %r" % (s, total))
    if h.edges != hedges or hedges != (edges if dim > 1 else edges[0]):
        raise Violation("fill-changes-edges", "%r" % (h.edges,))
    return {"nontrivial": _nontrivial(edges, case["fills"]), "classes": list(set(classes))}


def _watched(judge):  # noqa
    """a bin search that does not terminate is a violation, not a hang: at most 400 executed lines of
    hist_functions per call on average (12 edges need a few dozen)"""
    def wrapped(case):
        n = len(case.get("fills") or []) + len(case.get("values") or []) + len(case.get("values2") or []) + len(case.get("values3") or [])
        try:
            with instr.Watchdog([lena.structures.hist_functions], 20000 + 4000 * n):
                return judge(case)
        except instr.StepBudgetExceeded:
            raise Violation("bin-search-does-not-terminate", "edges %r, coordinates %s" % (
                case["edges"], short([f[0] for f in (case.get("fills") or case.get("values") or [])], 600)))
    return wrapped


judge_fill = _watched(_judge_fill)


def _prod(t):
    r = 1
    for x in t:
        r *= x
    return r


@st.composite
def element_case(draw):
    dim = draw(st.sampled_from([1, 1, 2]))
    edges = [draw(axis_edges(8 if dim == 1 else 5)) for _ in range(dim)]
    vals = []
    for _ in range(draw(st.integers(0, 20))):
        c = [draw(coordinate(e)) for e in edges]
        ctx = draw(st.one_of(st.none(), st.dictionaries(
            st.sampled_from(["a", "b"]), st.one_of(st.integers(0, 3), st.builds(dict)), max_size=2)))
        vals.append([c, ctx])
    vals2 = None
    if draw(st.integers(0, 2)) == 0:
        vals2 = []
        for _ in range(draw(st.integers(0, 8))):
            c = [draw(coordinate(e)) for e in edges]
            vals2.append([c, draw(st.one_of(st.none(), st.just({"a": 1})))])
    vals3 = None
    if vals2 is not None and draw(st.booleans()):
        vals3 = []
        for _ in range(draw(st.integers(0, 6))):
            c = [draw(coordinate(e)) for e in edges]
            vals3.append([c, None])
    return {"edges": edges, "values": vals, "values2": vals2, "values3": vals3}


def _judge_element(case):
    edges = case["edges"]
    dim = len(edges)
    hedges = copy.deepcopy(edges if dim > 1 else edges[0])
    el = Histogram(hedges)
    shape = tuple(len(e) - 1 for e in edges)
    # rounds of fill* compute, with reset() between them: every round is a histogram of its own values
    rounds = [case["values"]] + [case[k] for k in ("values2", "values3") if case.get(k) is not None]
    for rnd, values in enumerate(rounds):
        if rnd:
            el.reset()
        ref = {}
        n_out = 0
        last_ctx = {}
        for c, ctx in values:
            data = c[0] if dim == 1 else list(c)
            if ctx is None:
                el.fill(data)
                last_ctx = {}
            else:
                el.fill((data, copy.deepcopy(ctx)))
                last_ctx = ctx
            idx = tuple(_ref_index(edges, c))
            if all(0 <= i < n for i, n in zip(idx, shape)):
                ref[idx] = ref.get(idx, 0) + 1
            else:
                n_out += 1
        res = list(el.compute())
        if len(res) != 1:
            raise Violation("histogram-element-result-count", "%r" % (res,))
        hist, ctx = res[0]
        got = _flat(hist.bins, dim)
        exp = dict((i, ref.get(i, 0)) for i in got)
        what = "" if rnd == 0 else " (after reset(), earlier round %s)" % short(rounds[0])
        if got != exp or set(ref) - set(got) or hist.n_out_of_range != n_out:
            raise Violation("histogram-element-differs-from-bisect-histogram",
                            "edges %r values %r%s: bins %r n_out %r; expected %r n_out %r" % (
                                hedges, short(values), what, hist.bins, hist.n_out_of_range, sorted(ref.items()), n_out))
        if sum(got.values()) + hist.n_out_of_range != len(values):
            raise Violation("weight-not-conserved", "%r%s" % (case, what))
        if ctx != last_ctx:
            raise Violation("histogram-element-context", "context %r, expected that of the last value %r%s" % (ctx, last_ctx, what))
    return {"nontrivial": len(case["values"]) >= 2 and _nontrivial(edges, [(c, 1) for c, _ in case["values"]]),
            "classes": ["dim=%d" % dim, "rounds=%d" % len(rounds)]}


judge_element = _watched(_judge_element)


def strat_invalid(tier):
    ax = st.lists(st.one_of(st.integers(-5, 5), st.floats(-5, 5, allow_nan=False)),
                  min_size=0, max_size=5)
    return st.fixed_dictionaries({"edges": st.one_of(ax, st.lists(ax, min_size=1, max_size=3))})


def _valid_axis(a):
    return len(a) >= 2 and all(x < y for x, y in zip(a, a[1:]))


def judge_invalid(case):
    e = case["edges"]
    if not e:
        valid = False
    elif isinstance(e[0], list):
        if not all(isinstance(a, list) for a in e):
            return {"nontrivial": False, "classes": ["mixed-skip"]}
        valid = all(_valid_axis(a) for a in e)
    else:
        if any(isinstance(a, list) for a in e):
            return {"nontrivial": False, "classes": ["mixed-skip"]}
        valid = _valid_axis(e)
    try:
        histogram(copy.deepcopy(e))
    except LenaValueError:
        if valid:
            raise Violation("valid-edges-rejected", "%r" % (e,))
        return {"nontrivial": True, "classes": ["invalid-rejected"]}
    if not valid:
        raise Violation("invalid-edges-accepted", "histogram(%r) was accepted" % (e,))
    return {"nontrivial": False, "classes": ["valid"]}


@st.composite
def index_case(draw):
    e = draw(axis_edges(12))
    vs = [draw(coordinate(e)) for _ in range(draw(st.integers(1, 8)))]
    return {"edges": [e], "fills": [[[v], 1] for v in vs], "wkind": "one", "coord_as": "list"}


CHECKS = [
    Check("fill_sequences", judge_fill, strategy=lambda tier: fill_case(),
          quick=2500, thorough=200000,
          rule="1-3 dim edges from 7 spacing modes, 1-30 fills of edge / neighbour / midpoint / inside / outside / inf coordinates with exact weights; "
               "after every fill: index == bisect, exactly the expected cell (or n_out_of_range) changed by the weight, total conserved. "
               "Non-trivial = a coordinate equal to an edge or a float neighbour of one, dim>=2, or >=5 uneven bins."),
    Check("index_1d", judge_fill, strategy=lambda tier: index_case(),
          quick=2500, thorough=200000,
          rule="1-dim edges up to 12, 1-8 coordinates: get_bin_on_value_1d == bisect_right-1."),
    Check("element", judge_element, strategy=lambda tier: element_case(),
          quick=1200, thorough=60000,
          rule="Histogram element with bare and (data, context) values, weight 1, against a bisect histogram; in a third of the cases reset() and a second (sometimes a third) round of values, each judged as a histogram of its own. All C06 judges run under a step budget for hist_functions (a search that does not return is a violation)."),
    Check("invalid_edges", judge_invalid, strategy=strat_invalid, quick=800, thorough=20000,
          rule="non-increasing / too short / empty edges must raise LenaValueError, valid ones must be accepted."),
]


from .. import covfuzz  # noqa
CHECKS.append(covfuzz.check(CHECKS, "harness.props.c06", "fill_sequences", quick=3000, thorough=100000))

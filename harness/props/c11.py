"""C11 - SplitIntoBins runs the analysis per cell on exactly that cell's values; IterateBins; MapBins."""
import bisect
import copy
import itertools
import math

from harness.core import Check, Violation, short
from harness import instr
from harness.gen import shared_mutables
from hypothesis import strategies as st

import lena.context
import lena.core
import lena.structures.hist_functions
import lena.structures.split_into_bins
from lena.core import FillComputeSeq, FillCompute, Sequence, LenaStopFill
from lena.flow import Slice, Filter, Count, StoreFilled
from lena.math import Sum
from lena.structures import SplitIntoBins, IterateBins, MapBins, histogram, Histogram
from lena.variables import Variable, Combine

PROPERTY = "C11"
LEVEL = "exploration"
RULE = ("1- and 2-dimensional edges x flows of values inside, on the borders of and outside the edges x inner analyses pre* acc post* "
        "(context-mutating, stopping, filtering pre-elements; accumulators with 0-3 or per-value results); oracle: routing by bisect and a "
        "private fresh copy of the analysis per cell; IterateBins / MapBins against an independent index loop and a fresh sequence per cell.")
ASSUMPTIONS = [
    "the private copy of the analysis is a fresh FillComputeSeq built from the same recipe, filled with deep copies of the cell's sub-flow (filling stops at LenaStopFill)",
    "context.variable 'describing the argument variable' is taken to be what the argument variable itself writes when applied to the last in-range value",
    "a second compute() on the same element is left out (nothing is promised)",
    "every fill runs under a step budget in hist_functions.py / split_into_bins.py (a border value must not make the bin search loop)",
]

WATCHED = [lena.structures.hist_functions, lena.structures.split_into_bins]


def sv(v):
    if isinstance(v, tuple) and len(v) == 2 and isinstance(v[1], dict):
        return v[0], v[1]
    return v, None


def w_of(d):
    return d[2] if isinstance(d, tuple) else d


# ---- inner analysis elements ------------------------------------------------------------

def f_mut(v):
    d, c = sv(v)
    if c is None:
        return (d, {"seen": [w_of(d)]})
    c.setdefault("seen", []).append(w_of(d))
    c["last"] = {"w": w_of(d)}
    return (d, c)


def f_getw(v):
    d, c = sv(v)
    return w_of(d) if c is None else (w_of(d), c)


def f_wrap(v):
    return ("post", v)


def f_unctx(v):
    return sv(v)[0]


class UAcc(object):
    def __init__(self, n):
        self.n, self.vals = n, []

    def fill(self, v):
        self.vals.append(v)

    def compute(self):
        for j in range(self.n):
            yield ("u%d" % j, [w_of(sv(v)[0]) for v in self.vals])


class WSum(object):
    def __init__(self):
        self.el = Sum()

    def fill(self, v):
        d, c = sv(v)
        self.el.fill(w_of(d) if c is None else (w_of(d), c))

    def compute(self):
        return self.el.compute()


EXC = {"IndexError": IndexError, "KeyError": KeyError, "ValueError": ValueError, "TypeError": TypeError,
       "ZeroDivisionError": ZeroDivisionError, "StopIteration": StopIteration, "AttributeError": AttributeError}


def f_raise(name, w):
    """an analysis step that fails on particular values (a short tuple, a missing key ...)"""
    def raise_on(v):
        if w_of(sv(v)[0]) == w:
            raise EXC[name]("the analysis fails on weight %d" % w)
        return v
    return raise_on


def build_el(r):
    k = r[0]
    if k == "raise":
        return f_raise(r[1], r[2])
    if k == "mut":
        return f_mut
    if k == "getw":
        return f_getw
    if k == "varw":
        return Variable("w", w_of, type="derived", unit="kg")
    if k == "slice":
        return Slice(r[1])
    if k == "filt":
        return Filter(lambda v: w_of(sv(v)[0]) % 2 == 0)
    if k == "wsum":
        return WSum()
    if k == "count":
        return FillCompute(Count())
    if k == "store":
        return StoreFilled()
    if k == "store1":
        return StoreFilled(yield_as_a_group=False)
    if k == "uacc":
        return UAcc(r[1])
    if k == "hist":
        return Histogram([0, 2, 5, 9])
    if k == "wrap":
        return f_wrap
    if k == "unctx":
        return f_unctx
    raise AssertionError(r)


def build_inner(recipe, bare=False):
    els = [build_el(r) for r in recipe]
    if bare and len(els) == 1:
        return els[0]
    return FillComputeSeq(*els)


def make_arg(dim, typed):
    if dim == 1:
        if typed:
            return Variable("x", lambda d: d[0], unit="cm", type="coordinate")
        return Variable("x", lambda d: d[0])
    return Combine(Variable("x", lambda d: d[0], type="xt" if typed else ""),
                   Variable("y", lambda d: d[1], unit="cm"), name="xy")


def mkflow(js):
    out = []
    for v in js:
        d = tuple(v["d"])
        out.append((d, copy.deepcopy(v["c"])) if v["c"] is not None else d)
    return out


def cell_of(dim, edges, d):
    axes = [edges] if dim == 1 else edges
    idx = []
    for ax, x in zip(axes, d[:dim]):
        i = bisect.bisect_right(ax, x) - 1
        if not 0 <= i < len(ax) - 1:
            return None
        idx.append(i)
    return tuple(idx)


def get_cell(bins, idx):
    for i in idx:
        bins = bins[i]
    return bins


def shape_of(dim, edges):
    axes = [edges] if dim == 1 else edges
    return [len(a) - 1 for a in axes]


def results_equal(a, b):
    if isinstance(a, histogram) and isinstance(b, histogram):
        return a.edges == b.edges and a.bins == b.bins
    if isinstance(a, tuple) and isinstance(b, tuple) and len(a) == len(b):
        return all(results_equal(x, y) for x, y in zip(a, b))
    if isinstance(a, list) and isinstance(b, list) and len(a) == len(b):
        return all(results_equal(x, y) for x, y in zip(a, b))
    return type(a) is type(b) and a == b or (a == b and not isinstance(a, (histogram,)))


# ---- SplitIntoBins -------------------------------------------------------------------------

def _as_edges(edges, dim, how):
    """the same edges spelled with tuples (documented as arrays / sequences of them)"""
    if how == "tuples":
        return tuple(edges) if dim == 1 else [tuple(a) for a in edges]
    if how == "mixed" and dim == 2:
        return [list(edges[0]), tuple(edges[1])]
    if how == "outer_tuple" and dim == 2:
        return tuple(list(a) for a in edges)
    return copy.deepcopy(edges)


def _listed(e):
    if isinstance(e, (list, tuple)):
        return [_listed(x) for x in e]
    return e


def judge_sib(case):
    dim, edges, recipe = case["dim"], case["edges"], case["recipe"]
    arg = make_arg(dim, case["typed"])
    arg_snapshot = copy.deepcopy(arg.var_context)
    sib = SplitIntoBins(build_inner(recipe, case.get("bare", False)), arg, _as_edges(edges, dim, case.get("edges_as", "lists")))
    # oracle: route by bisect, private fresh analysis per cell
    shape = shape_of(dim, edges)
    cells = list(itertools.product(*[range(s) for s in shape]))
    sub = dict((c, []) for c in cells)
    inners = dict((c, build_inner(recipe, case.get("bare", False))) for c in cells)
    stopped = set()
    last_in = None
    n_out = n_border = 0
    axes = [edges] if dim == 1 else edges
    rounds = [case["flow"]] + ([case["flow2"]] if case.get("flow2") is not None else [])
    has_raise = any(r[0] == "raise" for r in recipe)
    ambiguous_ctx = False
    last_in_idx = None
    for rnd, flow_js in enumerate(rounds):
        flow = mkflow(flow_js)
        snapshot = copy.deepcopy(flow)
        raised = {}
        for i, v in enumerate(flow):
            try:
                with instr.Watchdog(WATCHED, 5000):
                    sib.fill(v)
            except instr.StepBudgetExceeded:
                raise Violation("fill-does-not-terminate", "edges %s, value %r: more than 5000 steps" % (edges, v))
            except tuple(EXC.values()) as e:
                if not has_raise:
                    raise
                raised[i] = type(e).__name__
        with instr.Watchdog(WATCHED, 200000):
            try:
                res = list(itertools.islice(sib.compute(), 50))
            except instr.StepBudgetExceeded:
                raise Violation("compute-does-not-terminate", "edges %s (%s), analysis %s" % (edges, case.get("edges_as"), recipe))
        new = dict((c, []) for c in cells)
        for i_v, v in enumerate(snapshot):
            d = sv(v)[0]
            c = cell_of(dim, edges, d)
            if any(x in ax for ax, x in zip(axes, d[:dim])):
                n_border += 1
            if c is None:
                n_out += 1
                continue
            sub[c].append(v)
            new[c].append((i_v, v))
            last_in = v
            last_in_idx = i_v
        exp = {}
        exp_raised = {}
        for c in cells:
            if c not in stopped:
                for i_v, v in copy.deepcopy(new[c]):
                    try:
                        inners[c].fill(v)
                    except LenaStopFill:
                        stopped.add(c)
                        break
                    except tuple(EXC.values()) as e:
                        exp_raised[i_v] = type(e).__name__
            exp[c] = list(inners[c].compute())
        if any(new.values()):
            # the context kept when the analysis failed on the last in-range value is not promised
            ambiguous_ctx = last_in_idx in exp_raised
        if raised != exp_raised:
            raise Violation("exception-of-the-cell-analysis-not-passed-on",
                            "edges %s, analysis %s, flow %s: fill raised at %s; private copies of the analysis raise at %s" % (
                                edges, recipe, short(snapshot, 400), raised, exp_raised))
        nres = min(len(r) for r in exp.values())
        descr = "edges %s%s, analysis %s, %sflow %s" % (edges, "" if case.get("edges_as", "lists") == "lists" else " given as " + case["edges_as"], recipe,
                                                      "" if rnd == 0 else "second fill/compute round after %s, " % short(rounds[0], 200), short(snapshot, 400))
        if len(res) != nres:
            raise Violation("wrong-number-of-histograms", "%s: %d histograms, the cells alone yield %s results" % (
                descr, len(res), dict((c, len(r)) for c, r in exp.items())))
        for j, (h, ctx) in enumerate(res):
            if not isinstance(h, histogram) or _listed(h.edges) != edges:
                raise Violation("histogram-edges-differ", "%s: %r" % (descr, h))
            for c in cells:
                try:
                    got = get_cell(h.bins, c)
                except (IndexError, TypeError):
                    raise Violation("histogram-shape-differs", "%s: no cell %s in bins %s" % (descr, c, short(h.bins, 300)))
                if not results_equal(got, exp[c][j]):
                    raise Violation("cell-differs-from-private-analysis-of-its-sub-flow",
                                    "%s: cell %s of histogram %d holds %s; a private copy of the analysis on the cell's values %s yields %s" % (
                                        descr, c, j, short(got, 300), short(sub[c], 300), short(exp[c][j], 300)))
            # context: that of the last in-range value, variable = the argument variable
            if last_in is None:
                exp_ctx = None
            else:
                d, c0 = sv(last_in)
                out = make_arg(dim, case["typed"])((d, copy.deepcopy(c0) if c0 is not None else {}))
                exp_ctx = out[1]
            if ambiguous_ctx:
                if ctx.get("variable", {}).get("name") != arg.name:
                    raise Violation("context.variable-does-not-describe-the-argument-variable", "%s: %s" % (descr, ctx))
                continue
            if rnd > 0 and not any(new.values()):
                # compute() again without a new in-range value: the argument variable is applied to the stored
                # context a second time (what that composition looks like is not part of the statement);
                # the rest of the context and the variable's name are
                same_rest = exp_ctx is None or dict((k, x) for k, x in ctx.items() if k != "variable") == \
                    dict((k, x) for k, x in exp_ctx.items() if k != "variable")
                if not same_rest or ctx.get("variable", {}).get("name") != arg.name:
                    raise Violation("context.variable-does-not-describe-the-argument-variable", "%s: repeated compute() gives context %s" % (descr, ctx))
                continue
            if exp_ctx is not None and ctx != exp_ctx:
                sig = "histogram-context-differs"
                if ctx.get("variable") != exp_ctx.get("variable"):
                    sig = "context.variable-does-not-describe-the-argument-variable"
                raise Violation(sig, "%s: histogram context %s, expected that of the last in-range value with the argument variable: %s" % (
                    descr, ctx, exp_ctx))
            if exp_ctx is None and ctx.get("variable", {}).get("name") != arg.name:
                raise Violation("context.variable-does-not-describe-the-argument-variable", "%s: %s" % (descr, ctx))
            for k, (h2, ctx2) in enumerate(res[:j]):
                if shared_mutables(ctx, ctx2):
                    raise Violation("histogram-contexts-share-objects", descr)
        if arg.var_context != arg_snapshot:
            raise Violation("argument-variable-changed-by-use",
                            "%s: the argument variable's own context became %s (was %s)" % (descr, arg.var_context, arg_snapshot))
    filled_cells = sum(1 for c in cells if sub[c])
    has_mut = any(r[0] in ("mut", "varw") for r in recipe)
    classes = ["dim:%d" % dim, "acc:" + [r[0] for r in recipe if r[0] in ("wsum", "count", "store", "store1", "uacc", "hist")][0],
               "edges-as:" + case.get("edges_as", "lists"), "rounds:%d" % len(rounds)]
    if any(r[0] == "slice" for r in recipe):
        classes.append("stopping-pre-element")
    if has_raise:
        classes.append("analysis-raises-on-some-values")
    if n_border:
        classes.append("border-value")
    if n_out:
        classes.append("outside-value")
    nontrivial = (filled_cells >= 2 and n_border >= 1 and n_out >= 1) or (has_mut and filled_cells >= 1)
    return {"nontrivial": nontrivial, "classes": classes}


# ---- strategies -----------------------------------------------------------------------------

def axis():
    ints = st.lists(st.integers(-4, 6), min_size=2, max_size=6, unique=True).map(sorted)
    floats = st.lists(st.one_of(st.integers(-4, 6), st.sampled_from([-2.5, -0.5, 0.25, 0.5, 1.5, 2.75, 1e-9, -1e-9])),
                      min_size=2, max_size=6, unique=True).map(sorted)

    def mesh(args):
        lo, hi, n = args
        return [lo + (hi - lo) * i / float(n) for i in range(n)] + [hi]
    meshes = st.tuples(st.sampled_from([-1, -5, 0, -2]), st.sampled_from([1, 5, 3]), st.integers(2, 10)).map(mesh)
    return st.one_of(ints, floats, meshes)


def coord(ax):
    near = []
    for e in ax:
        near += [e, math.nextafter(e, math.inf), math.nextafter(e, -math.inf)]
    mids = [(a + b) / 2.0 for a, b in zip(ax, ax[1:])]
    return st.one_of(st.sampled_from(near), st.sampled_from(mids), st.sampled_from(mids),
                     st.sampled_from([ax[0] - 1, ax[-1] + 1, ax[0] - 1e9, ax[-1] + 1e9, -5e-324, 5e-324, 0.0]),
                     st.floats(ax[0] - 1, ax[-1] + 1, allow_nan=False))


ctxs = st.one_of(st.none(), st.dictionaries(st.sampled_from(["a", "b"]),
                                            st.one_of(st.integers(0, 3), st.fixed_dictionaries({"k": st.integers(0, 2)})), max_size=2),
                 st.dictionaries(st.sampled_from(["a", "b"]),
                                 st.one_of(st.integers(0, 3), st.fixed_dictionaries({"k": st.integers(0, 2)})), max_size=2),
                 # values that already went through a typed variable
                 st.just({"variable": {"name": "e", "type": "energy", "energy": {"name": "e"}}, "a": 1}))

pre_el = st.one_of(st.just(["mut"]), st.just(["getw"]), st.just(["varw"]), st.just(["filt"]),
                   st.builds(lambda k: ["slice", k], st.integers(0, 3)), st.builds(lambda k: ["slice", k], st.integers(0, 2)), st.just(["mut"]), st.just(["getw"]),
                   st.builds(lambda n, w: ["raise", n, w], st.sampled_from(sorted(EXC)), st.integers(0, 9)))
acc_el = st.one_of(st.just(["wsum"]), st.just(["count"]), st.just(["store"]), st.just(["store1"]),
                   st.builds(lambda n: ["uacc", n], st.integers(0, 3)), st.just(["wsum"]))
post_el = st.sampled_from([["wrap"], ["unctx"]])


@st.composite
def sib_case(draw):
    dim = draw(st.sampled_from([1, 1, 2]))
    axes = [draw(axis()) for _ in range(dim)]
    if dim == 2:
        axes = [a[:5] for a in axes]
    recipe = draw(st.lists(pre_el, max_size=3)) + [draw(acc_el)] + draw(st.lists(post_el, max_size=1))
    bare = len(recipe) == 1 and draw(st.booleans())
    flow = []
    for _ in range(draw(st.integers(0, 20))):
        d = [draw(coord(axes[0])), draw(coord(axes[1])) if dim == 2 else 0, draw(st.integers(0, 9))]
        flow.append({"d": d, "c": draw(ctxs)})
    flow2 = None
    if draw(st.integers(0, 3)) == 0:
        flow2 = []
        for _ in range(draw(st.integers(0, 6))):
            d = [draw(coord(axes[0])), draw(coord(axes[1])) if dim == 2 else 0, draw(st.integers(0, 9))]
            flow2.append({"d": d, "c": draw(ctxs)})
    return {"dim": dim, "edges": axes[0] if dim == 1 else axes, "recipe": recipe, "bare": bare,
            "typed": draw(st.booleans()), "flow": flow, "flow2": flow2,
            "edges_as": draw(st.sampled_from(["lists", "lists", "lists", "tuples", "mixed", "outer_tuple"]))}


# ---- IterateBins ------------------------------------------------------------------------------

@st.composite
def iter_case(draw):
    dim = draw(st.sampled_from([1, 2]))
    axes = [draw(axis())[:4] for _ in range(dim)]
    return {"dim": dim, "edges": axes[0] if dim == 1 else axes, "cell_ctx": draw(st.booleans()),
            "outer": draw(st.dictionaries(st.sampled_from(["a", "variable", "k"]),
                                          st.one_of(st.integers(0, 3), st.fixed_dictionaries({"name": st.sampled_from(["x", "q"])})),
                                          max_size=3)),
            "bare_value": draw(st.booleans()), "foreign": draw(st.integers(0, 2)),
            # how the bins to iterate are selected (the default selects histograms), and whether a second
            # histogram with the same edges and another variable follows in the same flow
            "select": draw(st.sampled_from(["default", "default", "class", "func", "classes"])),
            "second": draw(st.booleans())}


def judge_iter(case):
    dim, edges = case["dim"], case["edges"]
    shape = shape_of(dim, edges)
    cells = list(itertools.product(*[range(s) for s in shape]))
    axes = [edges] if dim == 1 else edges
    objs = {}

    def mk(idx):
        h = histogram([0, 1, 2], [sum(idx), len(idx)])
        objs[idx] = h
        return (h, {"cell": list(idx), "n": {"m": 1}}) if case["cell_ctx"] else h

    def nest(prefix, d):
        if d == dim:
            return mk(tuple(prefix))
        return [nest(prefix + [i], d + 1) for i in range(shape[d])]
    bins = nest([], 0)
    outer_ctx = copy.deepcopy(case["outer"])
    if not isinstance(outer_ctx.get("variable", {}), dict):
        outer_ctx.pop("variable")
    if dim == 2 and "variable" in outer_ctx:
        # the variable of a 2-dimensional split is a combination of two
        outer_ctx["variable"] = {"name": "xy", "dim": 2, "combine": [{"name": "x"}, {"name": "y"}]}
    hist = histogram(copy.deepcopy(edges), bins)
    val = hist if (case["bare_value"] and not outer_ctx) else (hist, outer_ctx)
    outer_snapshot = copy.deepcopy(outer_ctx)
    foreign = [7, ("s", {"z": 1})][:case["foreign"]]
    flow = foreign[:1] + [val] + foreign[1:]
    sel = case.get("select", "default")

    def mk_el():
        if sel == "class":
            return IterateBins(select_bins=histogram)
        if sel == "func":
            return IterateBins(select_bins=lambda content: isinstance(content, histogram) and content.dim == 1)
        if sel == "classes":
            return IterateBins(select_bins=[histogram, int])
        return IterateBins()
    out = list(mk_el().run(iter(flow)))
    if case.get("second"):
        # a second histogram with equal edges and another variable in the same flow: every value gets what
        # it gets when it is iterated alone (names derived from the variable included)
        def twin_val(name):
            c2 = copy.deepcopy(outer_snapshot)
            c2["variable"] = {"name": name} if dim == 1 else {"name": name, "dim": 2, "combine": [{"name": name + "1"}, {"name": name + "2"}]}
            return (histogram(copy.deepcopy(edges), nest([], 0)), c2)
        keep = dict(objs)
        joint = list(mk_el().run(iter([twin_val("u"), twin_val("w"), twin_val("u")])))
        alone = [r for nm in ("u", "w", "u") for r in mk_el().run(iter([twin_val(nm)]))]
        objs.clear()
        objs.update(keep)
        if [sv(r)[1] for r in joint] != [sv(r)[1] for r in alone]:
            diff = [(sv(a)[1], sv(b)[1]) for a, b in zip(joint, alone) if sv(a)[1] != sv(b)[1]][:1]
            raise Violation("iteratebins-result-depends-on-other-histograms-in-the-flow",
                            "edges %s: iterated in one flow with histograms of other variables a cell gets %s, alone %s" % (edges, short(diff[0][0], 300) if diff else len(joint), short(diff[0][1], 300) if diff else len(alone)))
    exp_n = len(cells) + len(foreign)
    if len(out) != exp_n:
        raise Violation("iteratebins-wrong-number-of-values", "edges %s: %d values for %d cells" % (edges, len(out) - len(foreign), len(cells)))
    cell_out = out[len(foreign[:1]):len(foreign[:1]) + len(cells)]
    for idx, v in zip(cells, cell_out):
        d, c = sv(v)
        if d is not objs[idx]:
            raise Violation("iteratebins-cell-order-or-identity", "edges %s: position of cell %s holds %r" % (edges, idx, d))
        want_edges = tuple((axes[k][i], axes[k][i + 1]) for k, i in enumerate(idx))
        if c is None or tuple(map(tuple, c.get("bin", {}).get("edges", ()))) != want_edges:
            raise Violation("iteratebins-wrong-bin-edges", "edges %s cell %s: context %s, expected bin.edges %s" % (edges, idx, c, want_edges))
        if c.get("bins") != outer_snapshot:
            raise Violation("iteratebins-outer-context-not-preserved", "cell %s: context.bins %s, histogram context %s" % (idx, c.get("bins"), outer_snapshot))
        if shared_mutables(c.get("bins"), outer_ctx):
            raise Violation("iteratebins-contexts-share-objects", "cell %s" % (idx,))
        rest = dict((k, x) for k, x in c.items() if k not in ("bins", "bin"))
        want_rest = {"cell": list(idx), "n": {"m": 1}} if case["cell_ctx"] else {}
        if rest != want_rest:
            raise Violation("iteratebins-cell-context-changed", "cell %s: %s vs %s" % (idx, rest, want_rest))
    for a in range(len(cell_out)):
        for b in range(a):
            if shared_mutables(sv(cell_out[a])[1].get("bins"), sv(cell_out[b])[1].get("bins")):
                raise Violation("iteratebins-contexts-share-objects", "cells %d and %d share context.bins" % (a, b))
    return {"nontrivial": len(cells) >= 2, "classes": ["dim:%d" % dim, "cells:%d" % min(len(cells), 6), "select:" + sel]}


# ---- MapBins ----------------------------------------------------------------------------------------

class Expand(object):
    def run(self, flow):
        for v in flow:
            yield v
            yield sv(v)[0] + 100


class Expand2(object):
    """1:2, each result with its own context"""

    def run(self, flow):
        for v in flow:
            d, c = sv(v)
            c = copy.deepcopy(c) if c is not None else {}
            yield (d, dict(c, r={"first": 1}))
            yield (d + 100, dict(c, q={"second": 2}))


class EvenOnly(object):
    def run(self, flow):
        for v in flow:
            if sv(v)[0] % 2 == 0:
                yield v


def f_dbl(v):
    d, c = sv(v)
    return d * 2 if c is None else (d * 2, c)


def f_ctx(v):
    d, c = sv(v)
    c = copy.deepcopy(c) if c is not None else {}
    c["mapped"] = {"by": "f_ctx"}
    return (d, c)


def build_map_seq(r):
    els = []
    for k in r:
        if k == "dbl":
            els.append(f_dbl)
        elif k == "ctx":
            els.append(f_ctx)
        elif k == "sum":
            els.append(Sum())
        elif k == "count":
            els.append(Count())
        elif k == "expand":
            els.append(Expand())
        elif k == "expand2":
            els.append(Expand2())
        elif k == "even":
            els.append(EvenOnly())
        elif k == "store1":
            els.append(StoreFilled(yield_as_a_group=False))
    if len(els) == 1 and callable(els[0]) and r[0] in ("dbl",):
        return els[0]
    return Sequence(*els)


@st.composite
def map_case(draw):
    dim = draw(st.sampled_from([1, 2]))
    axes = [draw(axis())[:4] for _ in range(dim)]
    shape = [len(a) - 1 for a in axes]
    n = 1
    for s in shape:
        n *= s
    return {"dim": dim, "edges": axes[0] if dim == 1 else axes,
            "cells": draw(st.lists(st.integers(0, 9), min_size=n, max_size=n)),
            "cell_ctx": draw(st.booleans()),
            "seq": draw(st.lists(st.sampled_from(["dbl", "ctx", "sum", "count", "expand", "expand2", "even", "store1", "dbl", "sum"]), min_size=1, max_size=3)),
            "drop": draw(st.booleans()),
            # (the histogram context may already carry a "value" subcontext, e.g. from an earlier MapBins)
            "ctx": draw(st.dictionaries(st.sampled_from(["a", "k", "value"]), st.one_of(st.integers(0, 3), st.fixed_dictionaries({"q": st.integers(0, 2)})), max_size=3))}


def judge_map(case):
    dim, edges = case["dim"], case["edges"]
    shape = shape_of(dim, edges)
    cells = list(itertools.product(*[range(s) for s in shape]))
    it = iter(case["cells"])

    def nest(prefix, d):
        if d == dim:
            x = next(it)
            return (x, {"i": list(prefix)}) if case["cell_ctx"] else x
        return [nest(prefix + [i], d + 1) for i in range(shape[d])]
    bins = nest([], 0)
    hist = histogram(copy.deepcopy(edges), bins)
    ctx = copy.deepcopy(case["ctx"])
    snapshot_bins = copy.deepcopy(bins)
    mb = MapBins(build_map_seq(case["seq"]), drop_bins_context=case["drop"])
    out = list(mb.run(iter([(hist, ctx)])))
    exp = {}
    for c in cells:
        fresh = build_map_seq(case["seq"])
        cell = copy.deepcopy(get_cell(snapshot_bins, c))
        if hasattr(fresh, "run"):
            exp[c] = list(fresh.run([cell]))
        else:
            exp[c] = [fresh(cell)]
    nres = min(len(r) for r in exp.values())
    descr = "edges %s cells %s sequence %s" % (edges, case["cells"], case["seq"])
    if len(out) != nres:
        raise Violation("mapbins-wrong-number-of-histograms", "%s: %d, the cells alone yield %s" % (
            descr, len(out), dict((c, len(r)) for c, r in exp.items())))
    for j, v in enumerate(out):
        h, c2 = sv(v)
        if h.edges != edges:
            raise Violation("mapbins-edges-differ", "%s: %s" % (descr, h.edges))
        if h.edges is hist.edges or shared_mutables(h.edges, hist.edges):
            raise Violation("mapbins-edges-shared-with-the-original", descr)
        for c in cells:
            want = exp[c][j]
            if case["drop"]:
                want = sv(want)[0]
            got = get_cell(h.bins, c)
            if got != want:
                raise Violation("mapbins-cell-differs-from-sequence-applied-to-that-cell",
                                "%s: cell %s of result %d is %r, the sequence applied to that cell alone gives %r" % (descr, c, j, got, want))
        rest = dict((k, x) for k, x in (c2 or {}).items() if k != "value")
        if rest != dict((k, x) for k, x in case["ctx"].items() if k != "value"):
            raise Violation("mapbins-context-changed", "%s: %s vs %s" % (descr, c2, case["ctx"]))
        # context.value: the histogram's context updated (update_nested) with the context of this result's bins
        # (that of an example bin, the first cell), and nothing of the other results
        bin_ctx = copy.deepcopy(sv(exp[cells[0]][j])[1])
        want_ctx = copy.deepcopy(case["ctx"])
        if bin_ctx:
            lena.context.update_nested("value", want_ctx, bin_ctx)
        if (c2 or {}) != want_ctx:
            raise Violation("mapbins-context-value-does-not-describe-this-result",
                            "%s: context of result %d is %s, expected the histogram context %s with value updated by the bin context %s: %s" % (
                                descr, j, c2, case["ctx"], sv(exp[cells[0]][j])[1], want_ctx))
        for k in range(j):
            if shared_mutables(c2, sv(out[k])[1]):
                raise Violation("mapbins-contexts-share-objects", "%s: results %d and %d" % (descr, k, j))
        if shared_mutables(c2, ctx):
            raise Violation("mapbins-contexts-share-objects", "%s: result %d and the incoming histogram" % (descr, j))
    stateful = any(k in ("sum", "count", "store1") for k in case["seq"])
    return {"nontrivial": len(cells) >= 2 and (stateful or dim == 2),
            "classes": ["dim:%d" % dim, "stateful-seq" if stateful else "stateless-seq", "results:%d" % min(nres, 3)]}


# ---- lena.math.meshes: where the edges and the cell-wise maps come from -------------------------------------

def _nest(draw, depth, shape, leaf):
    if depth == len(shape):
        return draw(leaf)
    return [_nest(draw, depth + 1, shape, leaf) for _ in range(shape[depth])]


@st.composite
def mesh_case(draw):
    kind = draw(st.sampled_from(["mesh", "mesh", "mesh_md", "refine", "md_map", "md_map", "flatten", "md_map_bad"]))
    bound = st.one_of(st.integers(-20, 20), st.sampled_from([-2.5, -1.0, 0.1, 0.3, 1e-3, 1e6, 7.25, -1e-9, 1e9 + 0.5]))
    if kind in ("mesh", "refine"):
        lo = draw(bound)
        hi = lo + draw(st.one_of(st.integers(1, 30), st.sampled_from([0.1, 0.7, 1e-6, 1e7, 2.5])))
        return {"kind": kind, "range": [lo, hi], "nbins": draw(st.integers(1, 40)), "refinement": draw(st.integers(1, 5))}
    if kind == "mesh_md":
        dim = draw(st.integers(1, 3))
        rs = []
        for _ in range(dim):
            lo = draw(bound)
            rs.append([lo, lo + draw(st.one_of(st.integers(1, 30), st.sampled_from([0.1, 0.7, 2.5])))])
        return {"kind": kind, "ranges": rs, "nbins": [draw(st.integers(1, 12)) for _ in range(dim)],
                "as_tuple": draw(st.booleans())}
    if kind in ("md_map", "md_map_bad"):
        shape = draw(st.lists(st.integers(0, 3), min_size=1, max_size=3))
        narr = draw(st.integers(1, 3))
        leaf = st.one_of(st.integers(-5, 5), st.integers(-5, 5), st.sampled_from([["t", 1, {"a": 1}], ["t", 2, 3]]))
        arrays = [_nest(draw, 0, shape, leaf if narr == 1 else st.integers(-5, 5)) for _ in range(narr)]
        return {"kind": kind, "arrays": arrays, "bad": draw(st.sampled_from(["tuple", "int", "str", "none"])),
                "bad_at": draw(st.integers(0, narr - 1))}
    items = st.recursive(st.integers(-5, 5), lambda ch: st.one_of(st.lists(ch, max_size=3), st.lists(ch, max_size=3).map(lambda l: ["t"] + l)), max_leaves=12)
    return {"kind": "flatten", "array": draw(st.lists(items, max_size=4))}


def _untag(x):
    """JSON form -> value: ["t", ...] is a tuple"""
    if isinstance(x, list):
        if x and x[0] == "t":
            return tuple(_untag(y) for y in x[1:])
        return [_untag(y) for y in x]
    return x


def judge_mesh(case):
    import lena.math
    from lena.core import LenaTypeError
    k = case["kind"]
    classes = [k]

    def check_1d(res, lo, hi, n, what):
        if not isinstance(res, list) or len(res) != n + 1:
            raise Violation("mesh-wrong-number-of-edges", "%s: %r" % (what, res))
        if res[0] != lo or res[-1] != hi:
            raise Violation("mesh-does-not-start-and-end-at-the-range", "%s: first %r last %r" % (what, res[0], res[-1]))
        step = (hi - lo) / float(n)
        tol = 4 * n * 2.0 ** -52 * max(abs(lo), abs(hi), abs(step))
        for i, e in enumerate(res):
            if abs(e - (lo + i * step)) > tol:
                raise Violation("mesh-not-equally-spaced", "%s: edge %d is %r, expected about %r" % (what, i, e, lo + i * step))
        if step > 64 * tol and any(b <= a for a, b in zip(res, res[1:])):
            raise Violation("mesh-not-increasing", "%s: %r" % (what, res))
    if k == "mesh":
        lo, hi = case["range"]
        n = case["nbins"]
        for rng in ((lo, hi), [lo, hi]):
            check_1d(lena.math.mesh(rng, n), lo, hi, n, "mesh(%r, %d)" % (rng, n))
        return {"nontrivial": n > 1, "classes": classes}
    if k == "mesh_md":
        rs, ns = case["ranges"], case["nbins"]
        conv = (lambda x: tuple(map(tuple, x))) if case["as_tuple"] else (lambda x: [list(r) for r in x])
        res = lena.math.mesh(conv(rs), tuple(ns) if case["as_tuple"] else list(ns))
        if not isinstance(res, list) or len(res) != len(ns):
            raise Violation("mesh-wrong-dimension", "mesh(%r, %r) = %r" % (rs, ns, res))
        for r_, n_, e_ in zip(rs, ns, res):
            check_1d(e_, r_[0], r_[1], n_, "mesh(%r, %r)" % (rs, ns))
        return {"nontrivial": len(ns) > 1, "classes": classes + ["dim:%d" % len(ns)]}
    if k == "refine":
        lo, hi = case["range"]
        n, f = case["nbins"], case["refinement"]
        arr = lena.math.mesh((lo, hi), n)
        before = list(arr)
        res = lena.math.refine_mesh(arr, f)
        if arr != before:
            raise Violation("refine_mesh-changes-its-argument", "%r" % (arr,))
        if len(res) != n * f + 1 or res[::f] != before:
            raise Violation("refine_mesh-loses-or-moves-edges", "refine_mesh(%r, %d) = %r" % (before, f, res))
        for i in range(n):
            check_1d(res[i * f:(i + 1) * f + 1], before[i], before[i + 1], f, "refine_mesh cell %d of %r by %d" % (i, before, f))
        return {"nontrivial": f > 1 and n > 1, "classes": classes}
    if k in ("md_map", "md_map_bad"):
        arrays = [_untag(a) for a in case["arrays"]]
        snap = copy.deepcopy(arrays)
        calls = []

        def f(*args):
            calls.append(args)
            return ("f",) + args
        if k == "md_map_bad":
            bad = {"tuple": tuple(arrays[case["bad_at"]]), "int": 3, "str": "ab", "none": None}[case["bad"]]
            args = list(arrays)
            args[case["bad_at"]] = bad
            try:
                r = lena.math.md_map(f, *args)
            except LenaTypeError:
                return {"nontrivial": True, "classes": classes + ["rejected:" + case["bad"]]}
            if case["bad_at"] > 0 and not len(arrays[0]):
                # (an empty first array answers before the others are looked at)
                return {"nontrivial": False, "classes": classes + ["empty-first-array"]}
            raise Violation("md_map-accepts-an-array-that-is-not-a-list", "md_map(f, %r) = %r" % (args, r))

        def ref(*xs):
            if isinstance(xs[0], list):
                return [ref(*[x[i] for x in xs]) for i in range(len(xs[0]))]
            return ("f",) + xs
        exp = ref(*arrays)
        got = lena.math.md_map(f, *arrays)
        if got != exp:
            raise Violation("md_map-differs-from-the-element-wise-map", "md_map(f, %s) = %r, expected %r" % (", ".join(map(repr, arrays)), got, exp))
        if arrays != snap:
            raise Violation("md_map-changes-its-arrays", "%r became %r" % (snap, arrays))
        return {"nontrivial": len(calls) > 1 and (len(arrays) > 1 or isinstance(arrays[0][0], list)),
                "classes": classes + ["arrays:%d" % len(arrays)]}
    arr = _untag(case["array"])

    def ref_flat(a):
        out = []
        for el in a:
            if isinstance(el, (list, tuple)):
                out.extend(ref_flat(el))
            else:
                out.append(el)
        return out
    got = list(lena.math.flatten(arr))
    if got != ref_flat(arr):
        raise Violation("flatten-differs", "flatten(%r) = %r" % (arr, got))
    return {"nontrivial": len(got) > 1, "classes": classes}


CHECKS = [
    Check("split_into_bins", judge_sib, strategy=lambda tier: sib_case(), quick=7000, thorough=40000,
          rule="edges (ints, floats, lena-style meshes with negative lower parts; <= 6 per axis) x 0-20 values whose coordinates are edges, their float neighbours, midpoints, far outside, +-5e-324 x analyses of 0-3 pre-elements "
               "(in-place context mutator, getter, typed Variable, Filter, Slice) + accumulator (sum, count, store, per-value store, 0-3 results) + optional post element, bare or as sequence; every fill under a step budget. "
               "Non-trivial = >= 2 cells filled with a border and an outside value, or a context-mutating pre-element."),
    Check("iterate_bins", judge_iter, strategy=lambda tier: iter_case(), quick=3000, thorough=10000,
          rule="histograms of histograms (1-2 dim, cells with or without context, outer context with or without variable, foreign values around): one value per cell in row-major order, the very cell object, "
               "bin.edges of that cell, context.bins an unshared copy of the outer context. Non-trivial = >= 2 cells."),
    Check("map_bins", judge_map, strategy=lambda tier: map_case(), quick=2000, thorough=20000,
          rule="histograms with int cells (with or without context) x sequences of 1-3 elements (pure, context-adding, stateful Sum/Count/StoreFilled, 1:2 expander, filter) x drop_bins_context: "
               "same edges (equal, unshared), each cell = a fresh sequence applied to that cell alone, min number of results. Non-trivial = >= 2 cells and a stateful sequence or 2 dimensions."),
    Check("meshes", judge_mesh, strategy=lambda tier: mesh_case(), quick=1500, thorough=40000,
          rule="lena.math.mesh (1-3 dimensions, ranges of many magnitudes, 1-40 bins, tuples or lists): nbins+1 equally spaced increasing edges that start and end exactly at the range; refine_mesh keeps every edge; "
               "md_map over 1-3 equally shaped nested lists (depth 1-3, tuples as leaves) equals the element-wise map, leaves the arrays alone and rejects non-lists with LenaTypeError; flatten against a recursive reference. "
               "Non-trivial = more than one cell / array / element."),
]


from .. import covfuzz  # noqa
CHECKS.append(covfuzz.check(CHECKS, "harness.props.c11", "split_into_bins", quick=1500, thorough=40000))

"""C02 - Evaluation is lazy: demand-driven consumption and bounded buffering."""
import contextlib
import copy
import gc
import io
import weakref

from harness.core import Check, Violation, HarnessError, short
from hypothesis import strategies as st

import lena.context
import lena.flow
from lena.core import Sequence, Source, Split
from lena.context import UpdateContext, Context
from lena.flow import Filter, Slice, Count, RunIf, Print
from lena.output import MakeFilename
from lena.variables import Variable

PROPERTY = "C02"
LEVEL = "exploration"
RULE = ("pipelines of streaming elements over an instrumented source (pull events, weak references) with the consumer "
        "stopping after every k; oracle = no event before demand, pulls after k results <= need(k) computed metamorphically "
        "from eager runs on truncated inputs with continuations, exact lag of negative stops, weak-reference liveness bounds, "
        "exact block trace of Split.")
ASSUMPTIONS = [
    "values are (V(i), {'i': i}) pairs; element functions are registry functions that log their calls",
    "only successful pulls are counted (a pull that hits the end of the flow is not)",
    "accumulators, Reverse, End, Progress, Cache, Split(bufsize=None) and a Split placed after a filtering element are left out (documented to consume the flow / blocks not aligned with source positions)",
]

CAP = 400


class V(object):
    """a weak-referenceable, deep-copyable value"""
    __slots__ = ("i", "__weakref__")

    def __init__(self, i):
        self.i = i

    def __deepcopy__(self, memo):
        return V(self.i)

    def __repr__(self):
        return "V(%d)" % self.i


class PullCap(Exception):
    pass


class Src(object):
    """instrumented input iterator"""

    def __init__(self, values, log, infinite=False, refs=None):
        self.values, self.log, self.infinite = values, log, infinite
        self.pulls = 0
        self.refs = refs
        self.max_alive = 0

    def __iter__(self):
        return self

    def __next__(self):
        i = self.pulls
        if self.infinite:
            if i >= CAP:
                raise PullCap()
            v = mkval(i)
        else:
            if i >= len(self.values):
                raise StopIteration
            v = self.values[i]
            self.values[i] = None      # the source does not keep it alive
        self.pulls += 1
        self.log.append(("pull", i))
        if self.refs is not None:
            # how many earlier input values are alive at the moment of this pull
            a = sum(1 for r in self.refs if r() is not None)
            if a > self.max_alive:
                self.max_alive = a
            self.refs.append(weakref.ref(v[0]))
        return v


class SizedLazy(object):
    def __init__(self, src):
        self.src = src

    def __len__(self):
        return len(self.src.values) if self.src.values is not None else 10 ** 6

    def __iter__(self):
        return self.src


def mkval(i):
    return (V(i), {"i": i})


def idx(v):
    d = v[0] if isinstance(v, tuple) and len(v) == 2 and isinstance(v[1], dict) else v
    while isinstance(d, tuple):
        d = d[-1]
    if not isinstance(d, V):
        # every value of these pipelines descends from a source value: anything else is not a
        # stream transformation of the input (e.g. a branch was run as an accumulator)
        raise Violation("pipeline-yields-a-value-that-is-no-transformed-input", "value %r" % (v,))
    return d.i


def plain(r):
    if isinstance(r, V):
        return ["V", r.i]
    if isinstance(r, (tuple, list)):
        return [plain(x) for x in r]
    if isinstance(r, dict):
        return dict((k, plain(x)) for k, x in r.items())
    return r


PRED = {
    "even": lambda i: i % 2 == 0,
    "mod3": lambda i: i % 3 == 0,
    "lt6": lambda i: i % 1000 < 6,
    "all": lambda i: True,
    "none": lambda i: False,
}
# one continuation value for each truth assignment of (even, mod3, lt6)
CONT_VALUES = [1002, 1008, 1000, 1010, 1005, 1011, 1001, 1007]
# need is computed per element (see need_table), where only the number of
# following values (none, one, many) and the class of the next value matter
CONTS = [[], [1002], [1007], CONT_VALUES, CONT_VALUES[::-1]]


def build_el(r, log):
    k = r[0]
    if k == "map":
        name = r[1]

        def f(v, name=name):
            log.append(("call", name, idx(v)))
            if not (isinstance(v, tuple) and len(v) == 2):
                raise Violation("pipeline-yields-a-value-that-is-no-transformed-input", "value %r" % (v,))
            d, c = v
            if name == "id":
                return v
            if name == "wrap":
                return (("w", d), c)
            if name == "ctx_k":
                c = dict(c)
                c["k"] = c.get("k", 0) + 1
                return (d, c)
            if name == "ctx_mut":
                c["m"] = c.get("m", 0) + 1
                return v
            raise AssertionError(name)
        return f
    if k == "var":
        def getter(d, name=r[1]):
            log.append(("call", "getter", 0))
            return d
        return Variable(r[1], getter)
    if k == "filter":
        return Filter(mkpred(r[1], log))
    if k == "slice":
        return Slice(*r[1:])
    if k == "count":
        return Count(r[1])
    if k == "runif":
        return RunIf(mkpred(r[1], log), *[build_el(x, log) for x in r[2]])
    if k == "print":
        return Print(transform=lambda v: "p", end="")
    if k == "context":
        return Context()
    if k == "update_context":
        return UpdateContext(r[1], r[2])
    if k == "make_filename":
        return MakeFilename(r[1])
    if k == "split":
        def mk(b):
            if b and b[0] == "SEQ":
                # a ready Sequence as a branch (it stays a per-block sequence whatever it contains)
                return Sequence(*[build_el(x, log) for x in b[1:]])
            return tuple(build_el(x, log) for x in b)
        return Split([mk(b) for b in r[1]], bufsize=r[2])
    raise AssertionError(r)


def mkpred(name, log):
    def p(v):
        log.append(("call", name, idx(v)))
        return PRED[name](idx(v))
    return p


def build(els, log):
    return Sequence(*[build_el(r, log) for r in els])


def stream(els, values):
    """fresh output objects of the pipeline els over fresh source values"""
    log = []
    flow = iter([mkval(i) for i in values])
    if not els:
        return list(flow)
    return list(build(els, log).run(flow))


def need_table(els, xs, points):
    """Compositional need.  For element i let s_i be its input stream (the
    complete output of the elements before it over xs).  N_i(j) is the least
    m such that the element alone, over s_i[:m] followed by any of the
    continuations, yields at least j results whose first j equal its first j
    results over s_i (None: only the end of its input determines them).
    need[k] = N_1(N_2(...N_n(k))): what a chain of individually lazy
    elements pulls from the source for k results.  *points* restricts the
    truncation points of the first element (block-aligned for Split)."""
    real = [plain(r) for r in stream(els, xs)]
    tables = []
    ends = []
    for i, r in enumerate(els):
        base = stream(els[:i], xs)
        out_i = [plain(x) for x in build([r], []).run(iter(copy.deepcopy(base)))]
        pts = points if i == 0 else list(range(len(base) + 1))
        outs = {}
        for m in pts:
            outs[m] = []
            for c in CONTS:
                inp = copy.deepcopy(base[:m]) + [mkval(v) for v in c]
                outs[m].append([plain(x) for x in build([r], []).run(iter(inp))])
        N = {0: 0}
        for j in range(1, len(out_i) + 1):
            N[j] = None
            for m in pts:
                if all(len(o) >= j and o[:j] == out_i[:j] for o in outs[m]):
                    N[j] = m
                    break
        tables.append(N)
        # E: the least m after which the element's complete output is settled whatever follows
        # (only an element that stops by itself, such as a Slice with a non-negative stop, has one
        # that is smaller than its available input)
        E = None
        for m in pts:
            if all(o == out_i for o in outs[m]):
                E = m
                break
        # (only for a Slice with non-negative indices: it can never need a value at or beyond its stop;
        # how far other forms read to find out that nothing follows is not promised)
        stop = None
        if r[0] == "slice" and all(a is None or a >= 0 for a in r[1:3]):
            stop = r[1] if len(r) == 2 else r[2]
        # (the bound is the stop index itself: list slicing semantics never need the value at index stop)
        ends.append(stop if stop is not None and E is not None and stop < len(base) else None)
    # what the source has to give until the first self-stopping element has settled its output
    end_need = None
    for i, E in enumerate(ends):
        if E is not None:
            j = E
            for N in reversed(tables[:i]):
                j = N.get(j)
                if j is None:
                    break
            end_need = j
            break
    need_table.end_need = end_need
    need = {}
    for k in range(1, len(real) + 1):
        j = k
        for N in reversed(tables):
            j = N.get(j)
            if j is None:
                break
        need[k] = j
    return real, need


# ---- strategies -------------------------------------------------------------

preds = st.sampled_from(["even", "mod3", "lt6", "all", "even", "mod3", "lt6", "all", "none"])
simple_el = st.one_of(
    st.builds(lambda f: ["map", f], st.sampled_from(["id", "wrap", "ctx_k", "ctx_mut"])),
    st.builds(lambda n: ["var", n], st.sampled_from(["v1", "v2"])),
    st.builds(lambda p: ["filter", p], preds),
)


def slice_el(neg=True):
    lo = -4 if neg else 0
    idx_ = st.one_of(st.none(), st.integers(lo, 7))
    return st.one_of(
        st.builds(lambda a: ["slice", a], st.integers(lo, 8)),
        st.builds(lambda a, b: ["slice", a, b], idx_, idx_),
        st.builds(lambda a, b, c: ["slice", a, b, c], idx_, idx_, st.integers(1, 3)),
    )


# a Split without branches acts like an empty Sequence: a streaming identity, whatever its bufsize
empty_split = st.builds(lambda b: ["split", [], b], st.sampled_from([1, 2, 3, 1000, None]))

stream_el = st.one_of(
    simple_el, simple_el, simple_el, empty_split,
    slice_el(),
    st.builds(lambda n: ["count", n], st.sampled_from(["count", "n2"])),
    st.builds(lambda p, xs: ["runif", p, xs], preds, st.lists(simple_el, max_size=2)),
    st.just(["print"]), st.just(["context"]),
    st.builds(lambda k, v: ["update_context", k, v], st.sampled_from(["a", "a.b"]), st.sampled_from([1, "{{i}}"])),
    st.builds(lambda t: ["make_filename", t], st.sampled_from(["f", "f_{{i}}"])),
)

branch = st.lists(st.one_of(
    st.builds(lambda f: ["map", f], st.sampled_from(["id", "wrap", "ctx_k", "ctx_mut"])),
    st.builds(lambda p: ["filter", p], preds)), min_size=1, max_size=2)
seq_branch = st.lists(st.one_of(
    st.builds(lambda f: ["map", f], st.sampled_from(["id", "wrap", "ctx_k", "ctx_mut"])),
    st.builds(lambda p: ["filter", p], preds),
    # (names differ from those of counts outside the Split: equal names with equal counts would make a prefix look sufficient by coincidence)
    st.builds(lambda n: ["count", n], st.sampled_from(["bcount", "bn"]))), min_size=1, max_size=2).map(lambda b: ["SEQ"] + b)
split_el = st.builds(lambda bs, n: ["split", bs, n], st.lists(st.one_of(branch, branch, seq_branch), min_size=1, max_size=3), st.integers(1, 4))


@st.composite
def pipeline_case(draw):
    kind = draw(st.sampled_from(["plain", "plain", "split_first"]))
    els = draw(st.lists(stream_el, min_size=1, max_size=5))
    if kind == "split_first":
        els = [draw(split_el)] + els[:3]
    n = draw(st.sampled_from(list(range(8, 21)) * 2 + list(range(4, 8)) * 2 + [3, 2, 1, 0]))
    return {"els": els, "n": n, "driver": draw(st.sampled_from(["sequence", "source", "source_iter", "sequence", "sequence_list", "sequence_sized"])),
            "stop_after": draw(st.sampled_from([99, 99, 3, 1, 1, 2, 2, 0, 4, 5, 7, 9, 12]))}


def _run(case, src, log):
    els = case["els"]
    if case.get("driver") == "source":
        s = Source(lambda: src, *[build_el(r, log) for r in els])
        check_idle(log, src, "construction", case)
        return s()
    if case.get("driver") == "sequence_sized":
        # a sized container whose iteration is lazy (a table, a tree wrapper): it has __len__ but must
        # not be read before the consumer asks
        s = build(els, log)
        check_idle(log, src, "construction", case)
        return s.run(SizedLazy(src))
    if case.get("driver") == "sequence_list":
        # the flow is a list (as RunIf, FillInto and Split hand it over)
        s = build(els, log)
        check_idle(log, src, "construction", case)
        return s.run(list(src.values))
    if case.get("driver") == "source_iter":
        # a lazy iterable (not callable) as the head of the Source
        if not els:
            import warnings
            with warnings.catch_warnings():
                warnings.simplefilter("ignore")
                s = Source(src)
        else:
            s = Source(src, *[build_el(r, log) for r in els])
        check_idle(log, src, "construction", case)
        return s()
    s = build(els, log)
    check_idle(log, src, "construction", case)
    return s.run(src)


def check_idle(log, src, when, case):
    if log or src.pulls:
        raise Violation("work-before-demand:%s" % when,
                        "events %s after %s of %s" % (short(log[:5]), when, short(case.get("els", case))))


def judge_pipeline(case):
    els, n = case["els"], case["n"]
    xs = list(range(n))
    has_split = els and els[0][0] == "split" and els[0][1]
    if has_split:
        b = els[0][2]
        points = sorted(set(list(range(0, n + 1, b)) + [n]))
    else:
        points = list(range(n + 1))
    with contextlib.redirect_stdout(io.StringIO()):
        real, need = need_table(els, xs, points)
        log = []
        src = Src([mkval(i) for i in xs], log)
        it = _run(case, src, log)
        check_idle(log, src, "run()", case)
        got = []
        tight = 0
        k_stop = case["stop_after"]
        for k in range(1, len(real) + 1):
            if k > k_stop:
                break
            try:
                r = next(it)
            except StopIteration:
                raise Violation("lazy-run-yields-fewer-results", "%s over %d values: result %d missing" % (short(els), n, k))
            got.append(plain(r))
            if got[-1] != real[k - 1]:
                raise Violation("lazy-run-differs-from-complete-run",
                                "%s over %d values: result %d is %s, complete run gives %s" % (short(els), n, k, short(got[-1]), short(real[k - 1])))
            bound = need[k] if need[k] is not None else n
            if src.pulls > bound:
                kinds = sorted(set(e[0] for e in els))
                raise Violation("pulled-beyond-shortest-determining-prefix:" + "+".join(kinds),
                                "%s over range(%d): after %d results %d values were pulled, the first %d results are determined by %d values" % (
                                    short(els, 500), n, k, src.pulls, k, bound))
            if src.pulls == bound:
                tight += 1
        pulls_at_stop = src.pulls
        if hasattr(it, "close"):
            it.close()
        del it
        if src.pulls != pulls_at_stop:
            raise Violation("pull-after-consumer-stopped", short(case))
    kinds = set(e[0] for e in els)
    nt = (len(els) >= 2 and kinds & {"slice", "count", "filter", "split", "runif"} and 0 < min(k_stop, len(real)) and
          (k_stop < len(real) or len(real) > 0))
    return {"nontrivial": bool(nt) and len(real) >= 1,
            "classes": ["results=%d" % min(len(real), 5), "stopped-early" if k_stop < len(real) else "took-all",
                        "split-first" if has_split else "no-split", "driver=" + case["driver"],
                        "undetermined-k" if any(v is None for v in need.values()) else "all-determined"] +
                       ["has:" + x for x in sorted(kinds)]}


# ---- infinite sources ---------------------------------------------------------

inf_preds = st.sampled_from(["even", "mod3", "all"])
inf_simple = st.one_of(
    st.builds(lambda f: ["map", f], st.sampled_from(["id", "wrap", "ctx_k", "ctx_mut"])),
    st.builds(lambda n: ["var", n], st.sampled_from(["v1", "v2"])),
    st.builds(lambda p: ["filter", p], inf_preds),
)


def inf_slice():
    a = st.one_of(st.none(), st.integers(0, 4))
    b = st.one_of(st.none(), st.integers(-3, -1))
    # no steps > 1 here: a stepping slice followed by a parity filter can
    # leave an infinite flow without any result, which rightly never ends
    return st.one_of(
        st.builds(lambda x, y: ["slice", x, y], a, b),
        st.builds(lambda x, y: ["slice", x, y, 1], a, b),
        st.builds(lambda x: ["slice", x, None], st.integers(0, 4)),
    )


inf_el = st.one_of(
    inf_simple, inf_simple, inf_slice(), empty_split,
    st.builds(lambda n: ["count", n], st.sampled_from(["count"])),
    st.builds(lambda p, xs: ["runif", p, xs], inf_preds, st.lists(inf_simple, max_size=2)),
    st.just(["print"]), st.just(["context"]),
    st.builds(lambda k, v: ["update_context", k, v], st.sampled_from(["a", "a.b"]), st.sampled_from([1, "{{i}}"])),
)


@st.composite
def infinite_case(draw):
    els = draw(st.lists(inf_el, min_size=0, max_size=4))
    if draw(st.booleans()):
        bs = draw(st.lists(st.lists(inf_simple, min_size=1, max_size=2), min_size=1, max_size=2))
        els = [["split", bs, draw(st.integers(1, 4))]] + els[:3]
    stop = draw(st.sampled_from([3, 1, 2, 0, 4, 5, 1, 2, 3, 4, 5, 6]))
    pos = draw(st.integers(0, len(els)))
    if els and els[0][0] == "split" and els[0][1]:
        pos = max(pos, 1)
    final = draw(st.sampled_from([["slice", stop], ["slice", 0, stop], ["slice", draw(st.integers(0, 2)), stop + 2, draw(st.integers(1, 2))],
                                  # a non-negative stop ends the run also with a negative start (no result, but it must return)
                                  ["slice", -draw(st.integers(1, 5)), stop], ["slice", -draw(st.integers(1, 5)), stop + 1, draw(st.integers(1, 2))]]))
    els = els[:pos] + [final] + els[pos:]
    return {"els": els, "driver": draw(st.sampled_from(["sequence", "source", "source_iter"]))}


def judge_infinite(case):
    els = case["els"]
    N = 96
    xs = list(range(N))
    has_split = els and els[0][0] == "split" and els[0][1]
    with contextlib.redirect_stdout(io.StringIO()):
        log = []
        src = Src(None, log, infinite=True)
        try:
            it = _run(case, src, log)
            check_idle(log, src, "run()", case)
            got = [plain(r) for r in it]
        except PullCap:
            raise Violation("does-not-terminate-on-infinite-source",
                            "%s pulled %d values from an infinite source without finishing" % (short(els, 500), CAP))
        total_pulls = src.pulls
        if total_pulls > N - 10:
            return {"nontrivial": False, "classes": ["too-sparse"]}
        # a finite prefix comfortably longer than what was pulled
        N = total_pulls + 10
        xs = list(range(N))
        if has_split:
            b = els[0][2]
            points = list(range(0, N + 1, b))
        else:
            points = list(range(N + 1))
        real, need = need_table(els, xs, points)
        end_need = need_table.end_need
        if got != real[:len(got)] or len(got) != len(real):
            # the finite prefix must give the same results: the pipeline ends in a non-negative stop
            raise Violation("infinite-run-differs-from-finite-prefix", "%s: %s vs %s" % (short(els), short(got), short(real)))
        # when the consumer has exhausted the pipeline, no more was pulled than settles the output of
        # the element that ends it (a Slice(0, 5, 4) is finished after 5 values, not after 8)
        if end_need is not None and total_pulls > end_need:
            kinds = sorted(set(e[0] for e in els))
            raise Violation("pulled-beyond-the-end-of-a-finished-pipeline:" + "+".join(kinds),
                            "infinite source, %s: %d values were pulled until the pipeline was exhausted, the Slice that ends it needs no more than %d" % (
                                short(els, 500), total_pulls, end_need))
        # step by step
        log2 = []
        src2 = Src(None, log2, infinite=True)
        it2 = _run(case, src2, log2)
        for k in range(1, len(real) + 1):
            next(it2)
            if need[k] is not None and src2.pulls > need[k]:
                kinds = sorted(set(e[0] for e in els))
                raise Violation("pulled-beyond-shortest-determining-prefix:" + "+".join(kinds),
                                "infinite source, %s: after %d results %d values were pulled, determined by %d" % (
                                    short(els, 500), k, src2.pulls, need[k]))
    return {"nontrivial": len(real) >= 1 and len(els) >= 2,
            "classes": ["results=%d" % min(len(real), 5), "split-first" if has_split else "no-split", "pulls=%d" % min(total_pulls // 10 * 10, 60)]}


# ---- negative Slice: lag and liveness ---------------------------------------------

@st.composite
def negslice_case(draw):
    form = draw(st.sampled_from(["stop", "start_stop", "negstart", "negstart_stop", "negstart_posstop"]))
    if form == "stop":
        args = [None, draw(st.integers(-6, -1))]
    elif form == "start_stop":
        # (also starts much larger than |stop|: the skipped head must not be kept)
        args = [draw(st.one_of(st.integers(0, 5), st.integers(6, 40))), draw(st.integers(-6, -1))]
    elif form == "negstart":
        args = [draw(st.integers(-6, -1)), None]
    elif form == "negstart_stop":
        args = [draw(st.integers(-6, -1)), draw(st.integers(-6, -1))]
    else:
        args = [draw(st.integers(-6, -1)), draw(st.integers(0, 30))]
    step = draw(st.sampled_from([None, 1, 1, 2, 3]))
    if step is not None:
        args.append(step)
    if form == "stop" and step is None and draw(st.booleans()):
        args = [args[1]]
    m = max(abs(a) for a in args[:2] if a is not None and a < 0) if len(args) > 1 else abs(args[0])
    n = m + 15 + draw(st.integers(0, 15)) + (args[0] if form == "start_stop" else 0)
    pre = draw(st.lists(st.builds(lambda f: ["map", f], st.sampled_from(["id", "ctx_mut"])), max_size=1))
    post = draw(st.lists(st.builds(lambda f: ["map", f], st.sampled_from(["id", "ctx_mut"])), max_size=1))
    # the flow reaches the Slice directly, or as the tail of a Source whose head chains one-time iterators
    return {"args": args, "n": n, "pre": pre, "post": post, "form": form, "head": draw(st.sampled_from(["run", "run", "chain", "chain2"]))}


def alive(refs):
    n = sum(1 for r in refs if r() is not None)
    return n


def judge_negslice(case):
    args, n = case["args"], case["n"]
    els = case["pre"] + [["slice"] + args] + case["post"]
    sl = slice(*args)
    start, stop, step = sl.start, sl.stop, sl.step or 1
    index = max(abs(a) for a in (start, stop) if a is not None and a < 0)
    log, refs = [], []
    src = Src([mkval(i) for i in range(n)], log, refs=refs)
    head = case.get("head", "run")
    if head == "run":
        it = build(els, log).run(src)
    else:
        from lena.flow import Chain
        chain = Chain(src) if head == "chain" else Chain(iter([]), src, iter(()))
        source = Source(chain, *[build_el(r, log) for r in els])
        check_idle(log, src, "construction", case)
        it = source()
    check_idle(log, src, "run()", case)
    exp = list(range(n))[sl]
    got = []
    worst = 0
    while True:
        try:
            r = next(it)
        except StopIteration:
            break
        got.append(idx(r))
        k = len(got)
        # liveness: the deque, the value in the consumer's hand, loop variables
        del r
        a = alive(refs)
        if a > index + 3:
            gc.collect()
            a = alive(refs)
        worst = max(worst, a)
        if a > index + 3:
            raise Violation("negative-slice-keeps-more-than-index-values-alive",
                            "Slice%s over %d values: %d input values alive after %d results (|index| = %d)" % (tuple(args), n, a, k, index))
        # exact lag of a negative stop
        if (start is None or start >= 0) and stop is not None and stop < 0:
            lag_exp = (start or 0) + (k - 1) * step + 1 + (-stop)
            if src.pulls != lag_exp:
                raise Violation("negative-stop-lag",
                                "Slice%s over %d values: %d pulls after %d results, documented lag gives %d" % (tuple(args), n, src.pulls, k, lag_exp))
    if src.max_alive > index + 3:
        gc.collect()
    if src.max_alive > index + 3:
        raise Violation("negative-slice-keeps-more-than-index-values-alive",
                        "Slice%s over %d values: %d earlier input values alive at the moment of a pull (|index| = %d): the flow is materialised" % (
                            tuple(args), n, src.max_alive, index))
    if start is not None and stop is not None and start < 0 and stop < 0 and stop <= start and src.pulls:
        # two negative indices with stop <= start select nothing whatever the flow is: no value is needed
        raise Violation("negative-slice-empty-by-its-indices-pulls-input",
                        "Slice%s over %d values: %d values pulled for a result that is empty for every flow (an endless flow would never return)" % (
                            tuple(args), n, src.pulls))
    if got != exp:
        raise Violation("negative-slice-differs-from-list-slicing", "Slice%s over range(%d): %s expected %s" % (tuple(args), n, short(got), short(exp)))
    return {"nontrivial": len(exp) >= 1, "classes": ["form=" + case["form"], "step=%s" % step, "head=" + head, "worst-alive-minus-index=%d" % (worst - index)]}


# ---- Split block trace and liveness ---------------------------------------------

@st.composite
def split_case(draw):
    bs = draw(st.lists(branch, min_size=1, max_size=3))
    return {"branches": bs, "bufsize": draw(st.one_of(st.integers(1, 5), st.integers(1, 5), st.integers(1, 5), st.sampled_from([None, 1000]))), "n": draw(st.sampled_from(list(range(7, 18)) * 2 + list(range(3, 7)) * 2 + [2, 1, 0])),
            "copy_buf": draw(st.booleans()), "post": draw(st.lists(st.builds(lambda f: ["map", f], st.sampled_from(["id", "wrap"])), max_size=1)),
            "stop_after": draw(st.sampled_from([99, 99, 99, 5, 1, 2, 3, 0, 8, 13, 21]))}


def branch_ref(b, i):
    """plain results of a 1:1 / filtering branch for value i (reference semantics)"""
    d, c = ["V", i], {"i": i}
    for r in b:
        if r[0] == "filter":
            if not PRED[r[1]](i):
                return []
        else:
            name = r[1]
            if name == "wrap":
                d = ["w", d]
            elif name == "ctx_k":
                c = dict(c)
                c["k"] = c.get("k", 0) + 1
            elif name == "ctx_mut":
                c = dict(c)
                c["m"] = c.get("m", 0) + 1
    return [[d, c]]


def judge_split(case):
    bs, bufsize, n = case["branches"], case["bufsize"], case["n"]
    split_bufsize = bufsize
    if bufsize is None or bufsize > n:
        # one block holding the whole flow (read at the first next(), not before)
        bufsize = max(n, 1)
    log, refs = [], []
    src = Src([mkval(i) for i in range(n)], log, refs=refs)
    sp = Split([tuple(build_el(x, log) for x in b) for b in bs], bufsize=split_bufsize, copy_buf=case["copy_buf"])
    seq = Sequence(sp, *[build_el(x, log) for x in case["post"]])
    check_idle(log, src, "construction", case)
    it = seq.run(src)
    check_idle(log, src, "run()", case)
    # expected trace
    exp = []
    if case["copy_buf"]:
        for s in range(0, n, bufsize):
            block = list(range(s, min(s + bufsize, n)))
            exp.extend(("pull", i) for i in block)
            for b in bs:
                for i in block:
                    for r in branch_ref(b, i):
                        for p in case["post"]:
                            if p[1] == "wrap":
                                r = [["w", r[0]], r[1]]
                        exp.append(("got", r))
    trace = []
    npull_seen = 0
    taken = 0
    worst = 0
    while taken < case["stop_after"]:
        try:
            r = next(it)
        except StopIteration:
            break
        taken += 1
        pulls = [e for e in log if e[0] == "pull"]
        trace.extend(pulls[npull_seen:])
        npull_seen = len(pulls)
        trace.append(("got", plain(r)))
        del r
        a = alive(refs)
        if a > bufsize + 2:
            gc.collect()
            a = alive(refs)
        worst = max(worst, a)
        if a > bufsize + 2:
            raise Violation("split-holds-more-than-bufsize-input-values",
                            "Split(bufsize=%d) over %d values: %d input values alive after %d results" % (bufsize, n, a, taken))
    else:
        pulls = [e for e in log if e[0] == "pull"]
        npull_seen = len(pulls)
    if case["copy_buf"]:
        # with copies every branch sees pristine values, so the reference is exact
        if trace != exp[:len(trace)]:
            j = next(i for i in range(len(trace)) if i >= len(exp) or trace[i] != exp[i])
            raise Violation("split-trace-differs-from-block-schedule",
                            "Split(%s, bufsize=%d) over %d values: event %d is %s, expected %s; trace %s" % (
                                short(bs), bufsize, n, j, short(trace[j]), short(exp[j] if j < len(exp) else None), short(trace[max(0, j - 4):j + 2], 500)))
    else:
        # shared buffer: only positions of pulls relative to results are judged
        shape = [e[0] if e[0] == "got" else e for e in trace]
        exp_nc = []
        for s in range(0, n, bufsize):
            block = list(range(s, min(s + bufsize, n)))
            exp_nc.extend(("pull", i) for i in block)
            for b in bs:
                for i in block:
                    exp_nc.extend("got" for r in branch_ref(b, i))
        if shape != exp_nc[:len(shape)]:
            raise Violation("split-trace-differs-from-block-schedule", "copy_buf=False %s" % short(case))
    nblocks = (n + bufsize - 1) // bufsize
    return {"nontrivial": nblocks >= 2 and taken >= 2 and len(bs) >= 1,
            "classes": ["blocks=%d" % min(nblocks, 4), "branches=%d" % len(bs), "worst-alive-minus-bufsize=%d" % (worst - bufsize),
                        "stopped-early" if taken < len([e for e in exp if e[0] == "got"]) else "took-all"]}


CHECKS = [
    Check("pipeline", judge_pipeline, strategy=lambda tier: pipeline_case(), quick=1600, thorough=30000,
          rule="1-5 streaming elements (maps incl. in-place context mutators, Variable, Filter, Slice with every sign pattern and step, Count, RunIf, Print, Context, "
               "UpdateContext, MakeFilename; optionally a Split of 1:1 / filtering branches first) over 0..20 values, as Sequence.run or Source; consumer takes k results then "
               "closes. Zero events after construction and after run(); after each result pulls <= need(k) (computed element by element with five continuations; block-aligned for Split). "
               "Non-trivial = >=2 elements incl. Slice/Count/Filter/RunIf/Split and >=1 result taken."),
    Check("infinite", judge_infinite, strategy=lambda tier: infinite_case(), quick=800, thorough=16000,
          rule="pipelines with a non-negative-stop Slice (any position) over an infinite source with a pull cap of %d: must terminate with the results of a 96-value prefix and pulls <= need(k) at every k." % CAP),
    Check("negative_slice", judge_negslice, strategy=lambda tier: negslice_case(), quick=800, thorough=16000,
          rule="Slice with negative start and/or stop (five sign forms, steps 1-3, |index| <= 6) over flows at least 15 longer than |index|: results == list slicing, "
               "exact lag start + (k-1)*step + 1 + |stop| for negative stops, live input values (weak references) <= |index| + 3 at every result."),
    Check("split_trace", judge_split, strategy=lambda tier: split_case(), quick=1000, thorough=20000,
          rule="Split of 1-3 per-value branches, bufsize 1..5, flows 0..17, both copy_buf settings, consumer stopping anywhere: the interleaved pull/result trace equals "
               "'pull one block, all results of all branches for it, next block'; live input values <= bufsize + 2."),
]


from .. import covfuzz  # noqa
CHECKS.append(covfuzz.check(CHECKS, "harness.props.c02", "pipeline", quick=1000, thorough=40000))

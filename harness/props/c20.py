"""C20 - Advertised names exist, work with only their subpackage imported, and resolve."""
import ast
import builtins
import contextlib
import dis
import importlib
import io
import itertools
import json
import os
import re
import shutil
import subprocess
import sys
import tempfile
import types

from harness.core import Check, Violation, HarnessError, short, REPO, VERIF
from harness import instr
from hypothesis import strategies as st

PROPERTY = "C20"
LEVEL = "exploration"
RULE = ("complete enumeration of (subpackage, advertised name), of star imports in fresh interpreters (also with each optional third-party module made unimportable), "
        "of every (function, loaded global name) pair and every lena.a.b attribute chain in lena/, and a call battery per public name run in an interpreter that imported only that "
        "subpackage versus one that imported everything first; plus Hypothesis-generated wrong arguments in-process.")
ASSUMPTIONS = [
    "code under a Python-2 version guard is excluded by three-valued partial evaluation of the guard with sys.version_info known (counted as dead-dropped)",
    "ROOT is not installed in this sandbox: elements needing it are exercised only up to their documented ImportError",
    "the call battery and the generated wrong arguments use a fixed pool of small arguments; any exception is acceptable except NameError / UnboundLocalError, "
    "AttributeError on a lena module and ImportError of a lena name",
    "calls run under a step budget; a call exceeding it on meaningless input is skipped and counted, not reported",
]

PKGS = ["context", "core", "flow", "input", "math", "meta", "output", "structures", "variables"]
OPTIONAL = ["jinja2", "numpy", "ROOT"]
CHILD = os.path.join(VERIF, "harness", "c20_child.py")


def run_child(spec, timeout=300):
    spec = dict(spec)
    spec["repo"] = REPO
    env = dict(os.environ)
    env["PYTHONHASHSEED"] = "0"
    env["PYTHONDONTWRITEBYTECODE"] = "1"
    env.pop("PYTHONPATH", None)
    deps = os.path.join(VERIF, ".deps")
    if os.path.isdir(deps):
        env["PYTHONPATH"] = deps
    try:
        p = subprocess.run([sys.executable, "-W", "ignore", CHILD], input=json.dumps(spec).encode(),
                           stdout=subprocess.PIPE, stderr=subprocess.PIPE, timeout=timeout, env=env,
                           cwd=spec.get("cwd") or tempfile.gettempdir())
    except subprocess.TimeoutExpired:
        raise HarnessError("child interpreter timed out: %s" % short(spec))
    try:
        res = json.loads(p.stdout.decode())
    except ValueError:
        raise HarnessError("child interpreter gave no JSON: %s %s" % (p.stdout[-500:], p.stderr[-1500:]))
    if "child_error" in res:
        raise HarnessError("child interpreter failed: %s" % res["child_error"])
    return res


def all_names(pkg):
    m = importlib.import_module("lena." + pkg)
    names = getattr(m, "__all__", None)
    if names is None:
        return None
    return list(names)


def interleave(rows, filler):
    """round-robin over the rows so that with len(rows) shards each shard sees one row"""
    n = max(len(r) for r in rows) if rows else 0
    for i in range(n):
        for j, r in enumerate(rows):
            yield r[i] if i < len(r) else filler(j)


# ---- (a) advertised names, star imports ------------------------------------------------------

def name_cases(tier):
    for pkg in PKGS:
        names = all_names(pkg)
        for nm in (names or []):
            yield {"kind": "name", "pkg": pkg, "name": nm}
        for b in [None] + OPTIONAL:
            yield {"kind": "star", "pkg": pkg, "block": b}


def judge_name(case):
    pkg = case["pkg"]
    if case["kind"] == "name":
        m = importlib.import_module("lena." + pkg)
        if not hasattr(m, case["name"]):
            raise Violation("advertised-name-does-not-exist", "lena.%s.__all__ lists %r, which the package does not define" % (pkg, case["name"]))
        return {"nontrivial": True, "classes": ["name"]}
    res = run_child({"mode": "star", "pkg": "lena." + pkg, "block": [case["block"]] if case["block"] else []})
    if not res["ok"]:
        raise Violation("star-import-fails", "from lena.%s import * in a fresh interpreter%s: %s: %s" % (
            pkg, " without %s" % case["block"] if case["block"] else "", res["exc"], res["msg"]))
    return {"nontrivial": True, "classes": ["star" + (":no-" + case["block"] if case["block"] else "")]}


# ---- (b) only this subpackage vs. everything imported first -------------------------------------------

_BATTERY = {}


def battery(pkg):
    if pkg not in _BATTERY:
        out = []
        for pre in ([], ["lena." + p for p in PKGS]):
            d = tempfile.mkdtemp(prefix="lena-c20-")
            try:
                out.append(run_child({"mode": "battery", "pkg": "lena." + pkg, "preimport": pre, "cwd": d}))
            finally:
                shutil.rmtree(d, ignore_errors=True)
        _BATTERY[pkg] = out
    return _BATTERY[pkg]


def battery_cases(tier):
    rows = []
    for pkg in PKGS:
        names = all_names(pkg)
        if names is None:
            m = importlib.import_module("lena." + pkg)
            names = [n for n in vars(m) if not n.startswith("_") and callable(getattr(m, n))]
        rows.append([{"pkg": pkg, "name": nm} for nm in sorted(set(names))])
    return interleave(rows, lambda j: {"pkg": PKGS[j], "name": None})


def judge_battery(case):
    pkg, name = case["pkg"], case["name"]
    if name is None:
        return {"nontrivial": False, "classes": ["filler"]}
    only, full = battery(pkg)
    pat = re.compile(r"^%s\d+(\.|$)" % re.escape(name))
    a = [(k, v) for k, v in only["outcomes"] if pat.match(k)]
    b = [(k, v) for k, v in full["outcomes"] if pat.match(k)]
    for k, v in a + b:
        if v[0] == "exc" and v[2]:
            raise Violation("undefined-name-or-missing-module-attribute:%s" % v[3].split(":")[0],
                            "lena.%s.%s (call %s, %s): %s: %s at %s" % (
                                pkg, name, k, "only lena.%s imported" % pkg if (k, v) in a else "all imported", v[1], v[4], v[3]))
    # (messages may contain object addresses: outcomes are compared by status, result repr / exception type)
    a = [(k, tuple(v[:2])) for k, v in a]
    b = [(k, tuple(v[:2])) for k, v in b]
    if a != b:
        diff = [(x, y) for x, y in zip(a, b) if x != y][:3]
        raise Violation("behaviour-depends-on-what-else-was-imported",
                        "lena.%s.%s: with only lena.%s imported vs. everything imported first: %s" % (pkg, name, pkg, short(diff, 600)))
    nexc = sum(1 for k, v in a if v[0] == "exc")
    return {"nontrivial": len(a) > 0, "classes": ["calls:%d" % (len(a) // 10 * 10), "pkg:" + pkg, "some-exceptions" if nexc else "no-exceptions"]}


# ---- (c) static: every loaded global name resolves; lena.a.b chains resolve ------------------------------

U = object()


def _ev(node):
    """three-valued evaluation of a test with sys.version_info known"""
    if isinstance(node, ast.BoolOp):
        vals = [_ev(v) for v in node.values]
        if isinstance(node.op, ast.And):
            if any(v is False for v in vals):
                return False
            return True if all(v is True for v in vals) else U
        if any(v is True for v in vals):
            return True
        return False if all(v is False for v in vals) else U
    if isinstance(node, ast.UnaryOp) and isinstance(node.op, ast.Not):
        v = _ev(node.operand)
        return U if v is U else (not v)
    if isinstance(node, ast.Compare) and len(node.ops) == 1:
        try:
            src = ast.unparse(node)
            if "sys.version_info" in src and all(isinstance(n, (ast.Compare, ast.Attribute, ast.Name, ast.Constant, ast.Load, ast.Tuple,
                                                                ast.Subscript, ast.cmpop)) for n in ast.walk(node)):
                return bool(eval(src, {"sys": sys}))
        except Exception:   # noqa
            pass
    return U


def dead_lines(tree):
    dead = set()

    def mark(nodes):
        for n in nodes:
            for x in ast.walk(n):
                if hasattr(x, "lineno"):
                    for ln in range(x.lineno, getattr(x, "end_lineno", x.lineno) + 1):
                        dead.add(ln)

    class Vis(ast.NodeVisitor):
        def visit_If(self, node):
            v = _ev(node.test)
            self.visit(node.test)     # short-circuited parts of the test itself
            if v is True:
                mark(node.orelse)
                for n in node.body:
                    self.visit(n)
            elif v is False:
                mark(node.body)
                for n in node.orelse:
                    self.visit(n)
            else:
                for n in node.body + node.orelse:
                    self.visit(n)

        def visit_BoolOp(self, node):
            for i, val in enumerate(node.values[:-1]):
                v = _ev(val)
                if (isinstance(node.op, ast.And) and v is False) or (isinstance(node.op, ast.Or) and v is True):
                    mark(node.values[i + 1:])
                    break
            self.generic_visit(node)
    Vis().visit(tree)
    return dead


def lena_modules():
    out = []
    root = os.path.join(REPO, "lena")
    for dp, dn, fn in os.walk(root):
        dn[:] = [d for d in dn if d != "__pycache__"]
        for f in sorted(fn):
            if f.endswith(".py"):
                p = os.path.join(dp, f)
                mod = os.path.relpath(p, REPO)[:-3].replace(os.sep, ".")
                if mod.endswith(".__init__"):
                    mod = mod[:-9]
                out.append((mod, p))
    return sorted(out)


_SCAN = {}


def scan_module(modname, path):
    """all (qualified function, global name, line) loads of the module, with resolution info"""
    if modname in _SCAN:
        return _SCAN[modname]
    src = open(path).read()
    tree = ast.parse(src)
    dead = dead_lines(tree)
    code = compile(src, path, "exec")
    try:
        mod = importlib.import_module(modname)
        ns = mod.__dict__
        import_error = None
    except ImportError as e:
        # (modules that need ROOT / numpy at import time)
        ns, import_error = None, str(e)
    pairs = []

    def walk(co, qual):
        stores = set(i.argval for i in dis.get_instructions(co) if i.opname == "STORE_NAME")
        for ins in dis.get_instructions(co):
            if ins.opname in ("LOAD_GLOBAL", "LOAD_NAME") and co is not code:
                name = ins.argval
                line = ins.positions.lineno if ins.positions else None
                if ins.opname == "LOAD_NAME" and name in stores:
                    continue     # class body referring to its own earlier definition
                status = "unresolved"
                if hasattr(builtins, name):
                    status = "builtin"
                elif ns is not None and name in ns:
                    status = "module"
                elif line in dead:
                    status = "dead"
                elif ns is None:
                    status = "module-not-importable"
                pairs.append({"module": modname, "qual": qual, "name": name, "line": line, "status": status})
        for c in co.co_consts:
            if isinstance(c, types.CodeType):
                walk(c, qual + "." + c.co_name if qual else c.co_name)
    walk(code, "")
    # attribute chains rooted at the name lena
    chains = []

    class CV(ast.NodeVisitor):
        def __init__(self):
            self.funcs = []

        def visit_FunctionDef(self, node):
            self.funcs.append(node)
            self.generic_visit(node)
            self.funcs.pop()
        visit_AsyncFunctionDef = visit_FunctionDef

        def visit_Attribute(self, node):
            parts = []
            cur = node
            while isinstance(cur, ast.Attribute):
                parts.append(cur.attr)
                cur = cur.value
            if isinstance(cur, ast.Name) and cur.id == "lena" and node.lineno not in dead:
                chain = ["lena"] + parts[::-1]
                imports = []
                for f in self.funcs:
                    for n in ast.walk(f):
                        if isinstance(n, (ast.Import, ast.ImportFrom)) and not (isinstance(n, ast.ImportFrom) and n.level):
                            imports.append(ast.unparse(n))
                chains.append({"module": modname, "chain": chain, "line": node.lineno, "imports": sorted(set(imports)),
                               "in_function": bool(self.funcs)})
                return      # the outermost chain contains the inner ones
            self.generic_visit(node)
    CV().visit(tree)
    _SCAN[modname] = (pairs, chains, import_error)
    return _SCAN[modname]


def static_cases(tier):
    for modname, path in lena_modules():
        pairs, chains, err = scan_module(modname, path)
        seen = set()
        for p in pairs:
            key = (p["qual"], p["name"])
            if key in seen:
                continue
            seen.add(key)
            yield {"module": modname, "qual": p["qual"], "name": p["name"]}


def judge_static(case):
    modname = case["module"]
    path = dict(lena_modules()).get(modname)
    if path is None:
        return {"nontrivial": False, "classes": ["module-gone"]}
    pairs, chains, err = scan_module(modname, path)
    mine = [p for p in pairs if p["qual"] == case["qual"] and p["name"] == case["name"]]
    if not mine:
        return {"nontrivial": False, "classes": ["load-gone"]}
    statuses = set(p["status"] for p in mine)
    if "unresolved" in statuses:
        p = [p for p in mine if p["status"] == "unresolved"][0]
        raise Violation("undefined-global-name:%s:%s" % (modname, case["name"]),
                        "%s, %s (line %s) loads the global name %r, which is neither defined in the module nor a builtin" % (
                            modname, case["qual"], p["line"], case["name"]))
    cls = sorted(statuses)
    return {"nontrivial": "module" in statuses, "classes": cls}


# ---- (c') names deleted by an except clause -------------------------------------------------------------------

def _own_nodes(func):
    """nodes of a function body that belong to its own scope (nested functions, lambdas and classes excluded)"""
    out = []
    stack = list(ast.iter_child_nodes(func))
    while stack:
        n = stack.pop()
        out.append(n)
        if isinstance(n, (ast.FunctionDef, ast.AsyncFunctionDef, ast.Lambda, ast.ClassDef)):
            continue
        stack.extend(ast.iter_child_nodes(n))
    return out


_HANDLERS = {}


def handler_scan(modname, path):
    """[(qualified function, name, handler line, [lines where the name is loaded after the handler without
    having been assigned again])]: `except E as name` deletes the name when the handler ends, so such a load
    raises UnboundLocalError (a NameError) exactly when the exception was caught"""
    if modname in _HANDLERS:
        return _HANDLERS[modname]
    with open(path) as f:
        tree = ast.parse(f.read())
    found = []

    def visit(scope, qual):
        nodes = _own_nodes(scope)
        for h in nodes:
            if isinstance(h, ast.ExceptHandler) and h.name:
                end = h.end_lineno
                stores = sorted(n.lineno for n in nodes if isinstance(n, ast.Name) and n.id == h.name
                                and isinstance(n.ctx, ast.Store) and n.lineno > end)
                loads = sorted(n.lineno for n in nodes if isinstance(n, ast.Name) and n.id == h.name
                               and isinstance(n.ctx, ast.Load) and n.lineno > end)
                # (a load inside a later handler binding the same name refers to that handler's own binding)
                others = [(o.lineno, o.end_lineno) for o in nodes if isinstance(o, ast.ExceptHandler) and o.name == h.name and o is not h]
                loads = [ln for ln in loads if not any(a <= ln <= b for a, b in others)]
                bad = [ln for ln in loads if not any(st_ < ln for st_ in stores)]
                found.append((qual, h.name, h.lineno, bad))
        for n in nodes:
            if isinstance(n, (ast.FunctionDef, ast.AsyncFunctionDef)):
                visit(n, (qual + "." if qual else "") + n.name)
            elif isinstance(n, ast.ClassDef):
                visit(n, (qual + "." if qual else "") + n.name)
    visit(tree, "")
    _HANDLERS[modname] = found
    return found


def handler_cases(tier):
    for modname, path in lena_modules():
        for qual, name, line, bad in handler_scan(modname, path):
            yield {"module": modname, "qual": qual, "name": name}


def judge_handler(case):
    path = dict(lena_modules()).get(case["module"])
    if path is None:
        return {"nontrivial": False, "classes": ["module-gone"]}
    mine = [h for h in handler_scan(case["module"], path) if h[0] == case["qual"] and h[1] == case["name"]]
    for qual, name, line, bad in mine:
        if bad:
            raise Violation("name-bound-by-except-clause-used-after-it:%s:%s" % (case["module"], qual),
                            "%s, %s: `except ... as %s` (line %d) deletes %s when the handler ends, line %s loads it afterwards: "
                            "UnboundLocalError whenever the exception was caught" % (case["module"], qual, name, line, name, bad))
    return {"nontrivial": bool(mine), "classes": ["handler-name-not-used-later"]}


def local_import_scan(modname, path):
    """(function, name, line of the first function-level import binding it, lines that load it before): a
    function-level `import lena.flow` makes `lena` a local name of the whole function, so a use of it above
    that statement (outside any loop) fails with UnboundLocalError although the module imports lena too"""
    import ast
    with open(path) as f:
        tree = ast.parse(f.read())
    out = []

    def own_nodes(fn):
        """nodes of the function's own scope: (node, inside_loop)"""
        stack = [(c, False) for c in fn.body]
        while stack:
            n, in_loop = stack.pop()
            yield n, in_loop
            if isinstance(n, (ast.FunctionDef, ast.AsyncFunctionDef, ast.Lambda, ast.ClassDef)):
                continue
            loop = in_loop or isinstance(n, (ast.For, ast.While))
            for c in ast.iter_child_nodes(n):
                stack.append((c, loop))

    def visit(node, qual):
        for c in ast.iter_child_nodes(node):
            if isinstance(c, (ast.FunctionDef, ast.AsyncFunctionDef)):
                q = qual + "." + c.name if qual else c.name
                nodes = list(own_nodes(c))
                declared = set()
                for n, _ in nodes:
                    if isinstance(n, (ast.Global, ast.Nonlocal)):
                        declared.update(n.names)
                bound = {}
                for n, _ in nodes:
                    if isinstance(n, (ast.Import, ast.ImportFrom)):
                        for a in n.names:
                            nm = a.asname or a.name.split(".")[0]
                            if nm != "*" and nm not in declared:
                                bound[nm] = min(bound.get(nm, n.lineno), n.lineno)
                params = set(a.arg for a in c.args.args + c.args.kwonlyargs + getattr(c.args, "posonlyargs", []))
                for nm, line in sorted(bound.items()):
                    if nm in params:
                        continue
                    other_binding = any(isinstance(n, ast.Name) and n.id == nm and isinstance(n.ctx, ast.Store) and n.lineno < line for n, _ in nodes)
                    early = sorted(n.lineno for n, in_loop in nodes
                                   if isinstance(n, ast.Name) and n.id == nm and isinstance(n.ctx, ast.Load) and n.lineno < line and not in_loop)
                    out.append((q, nm, line, [] if other_binding else early))
                visit(c, q)
            elif isinstance(c, ast.ClassDef):
                visit(c, qual + "." + c.name if qual else c.name)
            else:
                visit(c, qual)
    visit(tree, "")
    return out


def local_import_cases(tier):
    for modname, path in lena_modules():
        for qual, name, line, early in local_import_scan(modname, path):
            yield {"module": modname, "qual": qual, "name": name}


def judge_local_import(case):
    path = dict(lena_modules()).get(case["module"])
    if path is None:
        return {"nontrivial": False, "classes": ["module-gone"]}
    mine = [h for h in local_import_scan(case["module"], path) if h[0] == case["qual"] and h[1] == case["name"]]
    for qual, name, line, early in mine:
        if early:
            raise Violation("name-bound-by-a-function-level-import-used-before-it:%s:%s" % (case["module"], qual),
                            "%s, %s: `import` on line %d makes %s a local name of the function, line %s loads it before that statement: "
                            "UnboundLocalError whenever that line is reached" % (case["module"], qual, line, name, early))
    return {"nontrivial": bool(mine), "classes": ["function-level-import-not-used-before-it"]}


_CHAINS = {}


def chains_for(pkg):
    """resolution of every chain of the subpackage in an interpreter that imported only it"""
    if pkg not in _CHAINS:
        items = []
        for modname, path in lena_modules():
            if not (modname == "lena." + pkg or modname.startswith("lena.%s." % pkg)):
                continue
            items.extend(scan_module(modname, path)[1])
        # first without the function-level imports
        res = {}
        if items:
            r = run_child({"mode": "chains", "pkg": "lena." + pkg, "chains": [{"chain": it["chain"]} for it in items]})
            for it, ok in zip(items, r["resolved"]):
                key = (it["module"], tuple(it["chain"]), it["line"])
                if not ok and it["imports"]:
                    r2 = run_child({"mode": "chains", "pkg": "lena." + pkg, "chains": [{"chain": it["chain"], "imports": it["imports"]}]})
                    ok = r2["resolved"][0]
                res[key] = ok
        _CHAINS[pkg] = (items, res)
    return _CHAINS[pkg]


def chain_cases(tier):
    rows = []
    for pkg in PKGS:
        row = []
        seen = set()
        for modname, path in lena_modules():
            if not (modname == "lena." + pkg or modname.startswith("lena.%s." % pkg)):
                continue
            for it in scan_module(modname, path)[1]:
                key = (it["module"], tuple(it["chain"]))
                if key in seen:
                    continue
                seen.add(key)
                row.append({"pkg": pkg, "module": it["module"], "chain": it["chain"]})
        rows.append(row)
    return interleave(rows, lambda j: {"pkg": PKGS[j], "module": None, "chain": None})


def judge_chain(case):
    if case["module"] is None:
        return {"nontrivial": False, "classes": ["filler"]}
    pkg = case["pkg"]
    items, res = chains_for(pkg)
    keys = [k for k in res if k[0] == case["module"] and list(k[1]) == case["chain"]]
    if not keys:
        return {"nontrivial": False, "classes": ["chain-gone"]}
    bad = [k for k in keys if not res[k]]
    if bad:
        raise Violation("lena-attribute-chain-does-not-resolve:%s:%s" % (case["module"], ".".join(case["chain"])),
                        "%s line %s refers to %s, which does not resolve in an interpreter that imported only lena.%s "
                        "(the module must import what it uses)" % (case["module"], bad[0][2], ".".join(case["chain"]), pkg))
    own = case["chain"][1] == pkg if len(case["chain"]) > 1 else True
    return {"nontrivial": not own, "classes": ["own-subpackage" if own else "other-subpackage:" + case["chain"][1]]}


# ---- (d) generated wrong arguments, in-process ---------------------------------------------------------------

def ident(v):
    return v


def pred(v):
    return True


def _pool():
    import lena.math
    import lena.core
    return [1, 0, -1, 2.5, "a", "a.b", "{{a}}", "", None, {}, {"a": {"b": 1}}, [], [0, 1, 2], [[0, 1], [0, 1]],
            (1, {"a": 1}), ident, pred, lena.math.Sum(), lena.core.Sequence(ident), object(), True, "x,y", (0, 1),
            b"bytes", [ident], {"output": {"filetype": "csv"}}, ("s", {"output": {"filetype": "tex"}}), [1, (2, {"a": 1}), "s"], 3]


NPOOL = 29
METHODS = ["__call__", "run", "fill", "compute", "request", "reset", "fill_into", "scale", "add", "__repr__", "__eq__"]


@st.composite
def fuzz_case(draw):
    pkg = draw(st.sampled_from(PKGS))
    names = all_names(pkg)
    if names is None:
        m = importlib.import_module("lena." + pkg)
        names = sorted(n for n in vars(m) if not n.startswith("_") and callable(getattr(m, n)))
    name = draw(st.sampled_from(sorted(set(names))))
    args = draw(st.lists(st.integers(0, NPOOL - 1), max_size=3))
    kw = draw(st.booleans())
    calls = draw(st.lists(st.tuples(st.sampled_from(METHODS), st.lists(st.integers(0, NPOOL - 1), max_size=2)), max_size=3))
    return {"pkg": pkg, "name": name, "args": args, "calls": [[m, a] for m, a in calls]}


_WATCH = []


def _watched():
    if not _WATCH:
        for modname, path in lena_modules():
            try:
                _WATCH.append(importlib.import_module(modname))
            except ImportError:
                pass
    return _WATCH


def _bad(e):
    msg = str(e)
    if isinstance(e, (NameError, UnboundLocalError)):
        return True
    if isinstance(e, AttributeError) and re.search(r"module '?lena[\w.]*'? has no attribute", msg):
        return True
    if isinstance(e, ImportError) and "lena" in msg and not re.search(r"ROOT|numpy|jinja2", msg):
        return True
    return False


def judge_fuzz(case):
    m = importlib.import_module("lena." + case["pkg"])
    obj = getattr(m, case["name"], None)
    if obj is None or not callable(obj):
        return {"nontrivial": False, "classes": ["not-callable"]}
    if isinstance(obj, type) and issubclass(obj, BaseException):
        return {"nontrivial": False, "classes": ["exception-class"]}
    pool = _pool()
    classes = []

    def attempt(f, idxs, what):
        args = [pool[i] for i in idxs]
        if getattr(f, "__name__", "") == "run":
            args = [iter(a) if isinstance(a, list) else a for a in args]
        try:
            with instr.Watchdog(_watched(), 300000):
                res = f(*args)
                if hasattr(res, "__next__"):
                    res = list(itertools.islice(res, 20))
        except instr.StepBudgetExceeded:
            classes.append("step-budget-skipped")
            return None
        except (KeyboardInterrupt, SystemExit, MemoryError):
            raise
        except BaseException as e:   # noqa
            if _bad(e):
                from harness.core import lena_frame
                fr = lena_frame(e)
                where = "%s:%s" % (os.path.relpath(fr.filename, REPO), fr.name) if fr else "?"
                raise Violation("undefined-name-or-missing-module-attribute:%s" % where,
                                "lena.%s.%s%s %s: %s: %s" % (case["pkg"], case["name"], short(args, 200), what, type(e).__name__, e))
            classes.append("raises:" + ("Lena" if type(e).__name__.startswith("Lena") else "other"))
            return None
        classes.append("returns")
        return res

    with instr.Sandbox("lena-c20-"), contextlib.redirect_stdout(io.StringIO()):
        res = attempt(obj, case["args"], "construction/call")
        if res is not None and type(res).__module__.startswith("lena"):
            for mname, margs in case["calls"]:
                meth = getattr(res, mname, None)
                if meth is not None and callable(meth):
                    attempt(meth, margs, "then .%s" % mname)
    return {"nontrivial": "returns" in classes, "classes": sorted(set(classes)) + ["pkg:" + case["pkg"]]}


CHECKS = [
    Check("advertised_names", judge_name, cases=name_cases, exhaustive=True,
          rule="every name in the __all__ of every public subpackage exists; `from lena.X import *` succeeds in a fresh interpreter, also with jinja2 / numpy / ROOT made unimportable. All cases non-trivial."),
    Check("only_subpackage", judge_battery, cases=battery_cases, exhaustive=True, shards=9,
          rule="for every public name: a battery of 24 constructor/call argument tuples and, for every object obtained, up to 10 methods with fixed arguments, run in an interpreter that imported only lena.X and in one that "
               "imported every subpackage first; outcomes (result repr or exception type) must be identical and never NameError / AttributeError on a lena module / ImportError of a lena name. Non-trivial = the name is callable."),
    Check("static_names", judge_static, cases=static_cases, exhaustive=True,
          rule="every (function / method / class body / lambda / comprehension, global name it loads) pair in lena/: the name is defined in the module namespace after import, or is a builtin, or sits in code dead under the "
               "running Python version. Non-trivial = resolved in the module namespace (i.e. it could be missing)."),
    Check("local_imports", judge_local_import, cases=local_import_cases, exhaustive=True, shards=1,
          rule="every (function, name bound by an import statement inside that function): no load of the name on an earlier line of the function's own scope outside loops "
               "(it would be UnboundLocalError, a NameError, whatever the module imports at its top)."),
    Check("handler_names", judge_handler, cases=handler_cases, exhaustive=True, shards=1,
          rule="every `except E as name` clause in lena/: the name (deleted by Python 3 when the handler ends) is not loaded later in the same scope without having been assigned again "
               "(it would be an UnboundLocalError, a NameError, on exactly the inputs that make the handler run). All cases non-trivial."),
    Check("module_chains", judge_chain, cases=chain_cases, exhaustive=True, shards=9,
          rule="every attribute chain rooted at the name lena (lena.flow.get_data_context ...) in every module: resolves by getattr in an interpreter that imported only the module's own subpackage "
               "(plus the imports made inside the same function). Non-trivial = the chain leaves the module's own subpackage."),
    Check("wrong_arguments", judge_fuzz, strategy=lambda tier: fuzz_case(), quick=3000, thorough=60000,
          rule="Hypothesis: a public name, 0-3 arguments from a pool of 29 (numbers, strings, templates, None, dictionaries, lists, pairs, callables, elements, foreign objects) and up to 3 method calls on the result; "
               "in a sandbox directory under a step budget. Non-trivial = the first call returned an object."),
]


from .. import covfuzz  # noqa
CHECKS.append(covfuzz.check(CHECKS, "harness.props.c20", "wrong_arguments", quick=3000, thorough=60000))

"""C08 - Context addressing, formatting and update elements touch exactly the named item."""
import copy
import json

import os

from harness.core import Check, Violation, short, REPO, VERIF
from harness import gen
from hypothesis import strategies as st

from lena.core import (LenaKeyError, LenaTypeError, LenaValueError,
                       LenaException)
from lena.context import (get_recursively, contains, str_to_dict, str_to_list,
                          format_context, to_string, format_update_with,
                          UpdateContext, DeleteContext)

PROPERTY = "C08"
LEVEL = "exploration"
RULE = ("contexts x key paths (present/absent/through a scalar) x 3 notations x templates x "
        "UpdateContext option matrix; oracle = reference lookup/set/delete on key lists, "
        "exception contract, typed-equality canonicity of to_string.")
ASSUMPTIONS = [
    "keys are from {a,b,c,x,y} (no digits, no dict attribute names) so jinja2 attribute lookup and dotted keys agree; the addressing check also puts a top-level key spelled like the whole dotted path into some contexts",
    "dotted strings with empty components, contains(d, ''), not-well-nested braces, empty replacement fields and format specs are left out (undefined by the code's own docs); only the exception contract is checked for strings with empty components",
]

KEYS = ["a", "b", "c", "x", "y"]
MISSING = object()

ctx_leaf = st.one_of(st.sampled_from([0, 1, 2, False, True, None, "", "x", "y", 3.5]),
                     st.sampled_from([0, 1, False, None, "x", "xy", "a b", "ab"]),
                     st.builds(list), st.lists(st.integers(0, 2), min_size=1, max_size=2),
                     st.lists(st.sampled_from(["x", "y", "a"]), min_size=1, max_size=2))


def ctx_strat(depth=3):
    return gen.nested_dicts(keys=KEYS, depth=depth, leaf=ctx_leaf, max_size=3)


path_strat = st.lists(st.sampled_from(KEYS), min_size=0, max_size=4)


def ref_get(c, path):
    cur = c
    for k in path:
        if not isinstance(cur, dict) or k not in cur:
            return MISSING
        cur = cur[k]
    return cur


def biased_path(draw, ctx, min_size=0):
    """a path that is often present / absent at the last step / through a scalar"""
    mode = draw(st.integers(0, 5))
    allp = [list(p) for p in gen.paths_of(ctx)]
    if mode == 0 or not allp:
        return draw(st.lists(st.sampled_from(KEYS), min_size=max(min_size, draw(st.sampled_from([0, 1, 1, 2]))), max_size=4))
    p = list(draw(st.sampled_from(allp)))
    if mode == 4:
        # the documented string test: the last component is str() of the scalar found there
        # (truthy or falsy: 0, False, None)
        found, v = gen.ref_get(ctx, p)
        sv = str(v)
        if found and not isinstance(v, (dict, list)) and sv and "." not in sv and " " not in sv:
            return p + [sv]
        return p
    if mode == 5:
        # a last component that is only a part of what is found there: a substring of a string, an element of a list
        found, v = gen.ref_get(ctx, p)
        if found and isinstance(v, str) and len(v) >= 2:
            part = draw(st.sampled_from(sorted(set(v.replace(" ", "")))))
            return p + [part]
        if found and isinstance(v, list) and v and all(isinstance(x, str) and x for x in v):
            return p + [draw(st.sampled_from(v))]
        return p
    if mode == 1:
        return p
    if mode == 2:
        return p[:-1] + [draw(st.sampled_from(KEYS))]
    return p + draw(st.lists(st.sampled_from(KEYS), min_size=1, max_size=2))


def notation(path, how):
    if how == "str":
        return ".".join(path)
    if how == "list":
        return list(path)
    d = {}
    cur = d
    if how == "dict":        # {'a': {'b': {}}}
        for k in path:
            cur[k] = {}
            cur = cur[k]
        return d
    # dict2: {'a': 'b'} - last key as a value
    if len(path) < 2:
        for k in path:
            cur[k] = {}
        return d
    for k in path[:-2]:
        cur[k] = {}
        cur = cur[k]
    cur[path[-2]] = path[-1]
    return d


@st.composite
def addressing_case(draw):
    ctx = draw(ctx_strat())
    path = biased_path(draw, ctx)
    if draw(st.integers(0, 5)) == 0 and len(path) != 1:
        # a top-level key whose text is the whole dotted path (for the empty path: the empty key): a dotted
        # string still addresses the nested item, never this key
        ctx = dict(ctx)
        ctx[".".join(path)] = "flat"
    return {"ctx": ctx, "path": path,
            "notation": draw(st.sampled_from(["str", "list", "dict", "dict2"])),
            "default": draw(st.sampled_from(["<none>", None, 0, "D"])),
            "value": draw(st.one_of(ctx_leaf, st.builds(dict)))}


def _classify_path(ctx, path):
    if ref_get(ctx, path) is not MISSING:
        return "present"
    for i in range(len(path)):
        v = ref_get(ctx, path[:i])
        if v is MISSING:
            break
        if not isinstance(v, dict):
            return "through-scalar"
    return "absent"


def judge_addressing(case):
    ctx, path = case["ctx"], case["path"]
    c = copy.deepcopy(ctx)
    keys = notation(path, case["notation"])
    exp = ref_get(c, path)
    cls = _classify_path(ctx, path)
    # get_recursively
    try:
        got = get_recursively(c, copy.deepcopy(keys))
        if exp is MISSING:
            raise Violation("get_recursively-returns-for-absent-key",
                            "get_recursively(%r, %r) = %r" % (ctx, keys, got))
        if got is not exp:
            raise Violation("get_recursively-wrong-item",
                            "get_recursively(%r, %r) = %r, expected the item %r itself" % (ctx, keys, got, exp))
    except LenaKeyError:
        if exp is not MISSING:
            raise Violation("get_recursively-LenaKeyError-for-present-key",
                            "get_recursively(%r, %r)" % (ctx, keys))
    if case["default"] != "<none>":
        dflt = case["default"]
        got = get_recursively(c, copy.deepcopy(keys), dflt) if path else get_recursively(c, copy.deepcopy(keys), default=dflt)
        want = dflt if exp is MISSING else exp
        if got is not want and got != want or (exp is not MISSING and got is not exp):
            raise Violation("get_recursively-default-not-respected",
                            "get_recursively(%r, %r, %r) = %r, expected %r" % (ctx, keys, dflt, got, want))
    if c != ctx:
        raise Violation("get_recursively-changes-context", "%r" % (case,))
    # the three notations agree (all of them judged against ref above);
    # str_to_dict / str_to_list round trip
    if path:
        s = ".".join(path)
        if str_to_list(s) != path:
            raise Violation("str_to_list-differs", "%r -> %r" % (s, str_to_list(s)))
        v = copy.deepcopy(case["value"])
        d = str_to_dict(s, v)
        if get_recursively(d, s) is not v:
            raise Violation("str_to_dict-roundtrip", "get_recursively(str_to_dict(%r, v), %r) is not v: %r" % (s, s, d))
        if get_recursively(d, path) is not v or get_recursively(d, notation(path, "dict")) is not v:
            raise Violation("notations-disagree", "%r" % (d,))
        # the dictionary has exactly one key per level
        cur = d
        for k in path:
            if not isinstance(cur, dict) or list(cur) != [k]:
                raise Violation("str_to_dict-shape", "%r for %r" % (d, s))
            cur = cur[k]
        if len(path) >= 2:
            d2 = str_to_dict(s)
            if d2 != notation(path, "dict2"):
                raise Violation("str_to_dict-without-value", "%r -> %r" % (s, d2))
        # contains agrees with get_recursively
        try:
            got_c = contains(c, s)
        except Exception as e:
            raise Violation("contains-raises", "contains(%r, %r): %s %s" % (ctx, s, type(e).__name__, e))
        if len(path) == 1:
            want_c = path[0] in ctx
        else:
            parent = ref_get(ctx, path[:-1])
            if parent is MISSING:
                want_c = False
            elif isinstance(parent, dict):
                want_c = path[-1] in parent
            else:
                want_c = str(parent) == path[-1]
        if bool(got_c) != want_c or not isinstance(got_c, bool):
            raise Violation("contains-differs-from-reference",
                            "contains(%r, %r) = %r, expected %r" % (ctx, s, got_c, want_c))
        if exp is not MISSING and not got_c:
            raise Violation("contains-disagrees-with-get_recursively", "%r %r" % (ctx, s))
    else:
        if str_to_list("") != [] or str_to_dict("") != {}:
            raise Violation("empty-string-conversion", "")
    return {"nontrivial": len(path) >= 2 and cls != "present", "classes": [cls, case["notation"], "len=%d" % len(path)]}


def strat_bad_keys(tier):
    return st.fixed_dictionaries({
        "which": st.sampled_from(["d_not_dict", "keys_bad_type", "keys_two_at_level",
                                  "list_nonstr", "str_to_dict_one", "str_to_dict_empty_value",
                                  "empty_components", "format_nonstr"]),
        "junk": st.sampled_from([None, 5, 2.5, ["a"], "s"]),
        "s": st.sampled_from(["a..b", ".a", "a.", "..", "a.b..c"]),
        "ctx": ctx_strat(2)})


def judge_bad_keys(case):
    w, junk, ctx = case["which"], case["junk"], case["ctx"]
    want = {"d_not_dict": LenaTypeError, "keys_bad_type": LenaTypeError,
            "keys_two_at_level": LenaValueError, "list_nonstr": LenaTypeError,
            "str_to_dict_one": LenaValueError, "str_to_dict_empty_value": LenaValueError,
            "format_nonstr": LenaTypeError}.get(w)
    if w == "empty_components":
        # undefined behaviour: only the exception contract is checked
        try:
            get_recursively(ctx, case["s"])
        except LenaKeyError:
            pass
        try:
            contains(ctx, case["s"])
        except LenaException:
            pass
        return {"nontrivial": True, "classes": [w]}
    try:
        if w == "d_not_dict":
            get_recursively(junk, "a")
        elif w == "keys_bad_type":
            if isinstance(junk, (str, list, dict)):
                return {}
            get_recursively(ctx, junk)
        elif w == "keys_two_at_level":
            get_recursively(ctx, {"a": {"b": {}, "c": {}}})
        elif w == "list_nonstr":
            get_recursively(ctx, ["a", 5])
        elif w == "str_to_dict_one":
            str_to_dict("a")
        elif w == "str_to_dict_empty_value":
            str_to_dict("", 5)
        elif w == "format_nonstr":
            if isinstance(junk, str):
                return {}
            format_context(junk)
    except LenaException as e:
        if isinstance(e, want):
            return {"nontrivial": True, "classes": [w]}
        raise Violation("wrong-exception-type", "%s: %s instead of %s" % (w, type(e).__name__, want.__name__))
    raise Violation("malformed-argument-accepted", "%r" % (case,))


# ---- format_context -------------------------------------------------------

LITS = ["", "lit", "_", " ", "-", "x.y", "a b", ":", "!"]


@st.composite
def format_case(draw):
    ctx = draw(ctx_strat())
    parts = []
    for _ in range(draw(st.integers(0, 4))):
        if draw(st.booleans()):
            parts.append(["f", biased_path(draw, ctx, min_size=1) or ["a"]])
        else:
            parts.append(["l", draw(st.sampled_from(LITS))])
    return {"ctx": ctx, "parts": parts}


def judge_format(case):
    ctx, parts = case["ctx"], case["parts"]
    tmpl = "".join("{{%s}}" % ".".join(p[1]) if p[0] == "f" else p[1] for p in parts)
    f = format_context(tmpl)
    out = []
    missing = False
    for kind, p in parts:
        if kind == "f":
            v = ref_get(ctx, p)
            if v is MISSING:
                missing = True
                break
            out.append(str(v))
        else:
            out.append(p)
    c = copy.deepcopy(ctx)
    try:
        got = f(c)
    except LenaKeyError:
        if not missing:
            raise Violation("format_context-LenaKeyError-for-present-keys", "%r on %r" % (tmpl, ctx))
        got = None
    else:
        if missing:
            raise Violation("format_context-renders-absent-key", "%r on %r -> %r" % (tmpl, ctx, got))
        if got != "".join(out):
            raise Violation("format_context-renders-wrong-text",
                            "format_context(%r)(%r) = %r, expected %r" % (tmpl, ctx, got, "".join(out)))
    if c != ctx:
        raise Violation("format_context-changes-context", "%r" % (case,))
    nf = sum(1 for p in parts if p[0] == "f")
    # format_update_with: d[key] = formatted value, everything else untouched
    if nf and not missing:
        d = copy.deepcopy(ctx)
        format_update_with("y.y", tmpl, d)
        exp = copy.deepcopy(ctx)
        if not isinstance(exp.get("y"), dict):
            exp["y"] = {}
        exp["y"]["y"] = "".join(out)
        if d != exp:
            raise Violation("format_update_with-differs", "%r: %r expected %r" % (tmpl, d, exp))
    elif nf and missing:
        d = copy.deepcopy(ctx)
        try:
            format_update_with("y.y", tmpl, d)
        except LenaKeyError:
            if d != ctx:
                raise Violation("format_update_with-changes-d-on-error", "%r" % (d,))
        else:
            raise Violation("format_update_with-no-LenaKeyError", "%r %r" % (tmpl, ctx))
    return {"nontrivial": nf >= 2 or (nf >= 1 and missing), "classes": ["fields=%d" % nf, "missing" if missing else "all-present"]}


def strat_malformed(tier):
    return st.fixed_dictionaries({"t": st.text(alphabet="{}a.", min_size=1, max_size=7)})


def _well_nested(t):
    depth = 0
    for ch in t:
        if ch == "{":
            depth += 1
        elif ch == "}":
            depth -= 1
            if depth < 0:
                return False
    return depth == 0


def judge_malformed(case):
    t = case["t"]
    no, nc = t.count("{"), t.count("}")
    try:
        f = format_context(t)
    except LenaValueError:
        if no == nc and (no == 0 or "{{" in t):
            raise Violation("format_context-rejects-valid-template", "%r" % t)
        return {"nontrivial": True, "classes": ["rejected"]}
    except (IndexError, ValueError) as e:
        if not _well_nested(t) or no != nc:
            # left out: balanced in count but not well nested
            return {"nontrivial": False, "classes": ["not-well-nested-skipped"]}
        raise Violation("format_context-other-exception-at-creation", "%r: %s" % (t, type(e).__name__))
    if no != nc:
        raise Violation("format_context-accepts-unbalanced", "%r" % t)
    if no and "{{" not in t:
        raise Violation("format_context-accepts-single-braces", "%r" % t)
    try:
        f({"a": {"a": 1, "": 2}, "": {"a": 3}})
    except (LenaKeyError, ValueError, IndexError, KeyError):
        # call-time errors of str.format are documented
        pass
    return {"nontrivial": no > 0, "classes": ["accepted"]}


# ---- to_string -------------------------------------------------------------

@st.composite
def to_string_case(draw):
    # leaves may be lists that hold dictionaries (contexts of groups look like that)
    inner = st.dictionaries(st.sampled_from(KEYS), st.one_of(st.integers(2, 9), st.sampled_from(["s", "t", None])), min_size=1, max_size=3)
    leaf = st.one_of(gen.json_leaves, gen.json_leaves, gen.json_leaves,
                     st.lists(st.one_of(inner, st.integers(2, 5)), min_size=1, max_size=3))
    d = draw(gen.nested_dicts(keys=KEYS, depth=3, leaf=leaf))
    muts = draw(st.lists(st.tuples(st.integers(0, 30), st.sampled_from(["set", "del", "add"]),
                                   gen.json_leaves), max_size=2))
    return {"d": d, "muts": [list(m) for m in muts], "order_seed": draw(st.integers(0, 5))}


def _reorder(d, seed):
    if isinstance(d, dict):
        keys = sorted(d)
        if seed % 2:
            keys = keys[::-1]
        k2 = keys[seed % len(keys):] + keys[:seed % len(keys)] if keys else keys
        return dict((k, _reorder(d[k], seed + 1)) for k in k2)
    if isinstance(d, list):
        # the order of a list matters, the key order of dictionaries inside it does not
        return [_reorder(x, seed + 1) for x in d]
    return copy.deepcopy(d)


def judge_to_string(case):
    d = case["d"]
    e = copy.deepcopy(d)
    for sel, op, val in case["muts"]:
        paths = gen.paths_of(e)
        if op == "add" or not paths:
            e[KEYS[sel % len(KEYS)]] = val
            continue
        p = paths[sel % len(paths)]
        parent = gen.ref_get(e, p[:-1])[1]
        if op == "del":
            del parent[p[-1]]
        else:
            parent[p[-1]] = val
    s1 = to_string(copy.deepcopy(d))
    s1r = to_string(_reorder(d, case["order_seed"]))
    if s1 != s1r:
        raise Violation("to_string-depends-on-key-order", "%r: %r vs %r" % (d, s1, s1r))
    s2 = to_string(e)
    same = gen.typed_eq(d, e)
    if same != (s1 == s2):
        raise Violation("to_string-not-canonical",
                        "%r and %r are typed-%s but strings %r / %r" % (d, e, "equal" if same else "different", s1, s2))
    if json.loads(s1) != d:
        raise Violation("to_string-loses-information", "%r -> %r" % (d, s1))
    bad = copy.deepcopy(d)
    bad["x"] = {"y": set([1])}
    try:
        to_string(bad)
    except LenaValueError:
        pass
    else:
        raise Violation("to_string-accepts-unserializable", "%r" % (bad,))
    return {"nontrivial": bool(d) and not same, "classes": ["same" if same else "different"]}


# ---- UpdateContext ---------------------------------------------------------

def upd(d, other):
    for k, v in other.items():
        if isinstance(v, dict) and k in d:
            if not isinstance(d[k], dict):
                d[k] = {}
            upd(d[k], v)
        else:
            d[k] = v


def ref_set(c, path, v, recursively):
    cur = c
    for k in path[:-1]:
        if k not in cur or not isinstance(cur[k], dict):
            cur[k] = {}
        cur = cur[k]
    if recursively:
        upd(cur, {path[-1]: v})
    else:
        cur[path[-1]] = v


@st.composite
def update_case(draw):
    ctx = draw(ctx_strat())
    sub = draw(st.lists(st.sampled_from(KEYS), min_size=1, max_size=3))
    if draw(st.booleans()):
        sub = (biased_path(draw, ctx, min_size=1) or ["a"])[:3]
    mode = draw(st.sampled_from(["simple", "fmt", "val"]))
    opts = {}
    if draw(st.integers(0, 9)) < 4:
        opts[draw(st.sampled_from(["skip_on_missing", "raise_on_missing"]))] = True
    if draw(st.integers(0, 9)) < 3:
        opts["default"] = draw(st.sampled_from([None, 0, "D", {"q": {"r": 1}}, [1]]))
    rec = draw(st.booleans())
    if mode == "simple" and opts and draw(st.integers(0, 4)):
        opts = {}     # (options with a simple update are an error of construction: kept, but rare)
    case = {"ctx": ctx, "sub": sub, "mode": mode, "opts": opts, "rec": rec,
            "with_context": draw(st.sampled_from([True, True, True, False]))}
    if mode == "simple":
        # (dictionaries over the keys of the contexts: a recursive update merges them at every depth)
        case["update"] = draw(st.sampled_from([5, None, {"n": {"m": 1}}, [1, 2], {}, 0, False,
                                               {"a": {"b": 1}}, {"a": {"a": {"x": 0}}, "b": {"c": 2}}, {"x": {"y": {"a": 3}}, "a": {"c": {"b": 4}}},
                                               {"b": {"a": {"c": 5}}, "c": 6}]))
        if isinstance(case["update"], dict) and case["update"] and draw(st.booleans()):
            # the context already holds, where the update goes, a dictionary of the same shape with other
            # values and one more item at every level: a recursive update must keep those items
            def planted(d):
                out = dict((k, planted(v) if isinstance(v, dict) else "old") for k, v in d.items())
                out["y"] = "kept"
                return out
            cur = ctx
            for k in sub[:-1]:
                if not isinstance(cur.get(k), dict):
                    cur[k] = {}
                cur = cur[k]
            cur[sub[-1]] = planted(case["update"])
    elif mode == "val":
        case["src"] = biased_path(draw, ctx, min_size=1) or ["b"]
    else:
        parts = []
        for _ in range(draw(st.integers(1, 3))):
            if draw(st.booleans()):
                parts.append(["f", biased_path(draw, ctx, min_size=1) or ["a"]])
            else:
                parts.append(["l", draw(st.sampled_from(["lit", "_", "", " "]))])
        case["parts"] = parts
    return case


def judge_update(case):
    ctx, sub, mode, opts, rec = case["ctx"], case["sub"], case["mode"], case["opts"], case["rec"]
    nopt = len(opts)
    exp_exc = None
    exp_ctx = copy.deepcopy(ctx) if case["with_context"] else {}
    base = copy.deepcopy(exp_ctx)
    kw = copy.deepcopy(opts)
    src_obj_path = None
    changed = True
    if mode == "simple":
        update = copy.deepcopy(case["update"])
        if nopt:
            exp_exc = ("init", "LenaValueError")
        else:
            ref_set(exp_ctx, sub, copy.deepcopy(update), rec)
    elif mode == "val":
        p = case["src"]
        update = "{{" + ".".join(p) + "}}"
        kw["value"] = True
        if nopt > 1:
            exp_exc = ("init", "LenaValueError")
        else:
            v = ref_get(base, p)
            if v is MISSING:
                if "default" in opts:
                    ref_set(exp_ctx, sub, copy.deepcopy(opts["default"]), rec)
                elif opts.get("skip_on_missing"):
                    changed = False
                else:
                    exp_exc = ("call", "LenaKeyError")
            else:
                ref_set(exp_ctx, sub, copy.deepcopy(v), rec)
                src_obj_path = p
    else:
        parts = case["parts"]
        update = "".join("{{%s}}" % ".".join(p[1]) if p[0] == "f" else p[1] for p in parts)
        if nopt > 1 or "default" in opts:
            exp_exc = ("init", "LenaValueError")
        else:
            out = []
            missing = False
            for kind, p in parts:
                if kind == "f":
                    v = ref_get(base, p)
                    if v is MISSING:
                        missing = True
                        out.append("")
                    else:
                        out.append(str(v))
                else:
                    out.append(p)
            if missing and opts.get("raise_on_missing"):
                exp_exc = ("call", "LenaKeyError")
            elif missing and opts.get("skip_on_missing"):
                changed = False
            else:
                ref_set(exp_ctx, sub, "".join(out), rec)
    classes = [mode, "opts=%d" % nopt, "rec" if rec else "norec"]

    def build():
        return UpdateContext(".".join(sub), copy.deepcopy(update), recursively=rec, **copy.deepcopy(kw))
    try:
        uc = build()
    except (LenaValueError, LenaTypeError) as e:
        if exp_exc != ("init", type(e).__name__):
            raise Violation("UpdateContext-rejects-valid-arguments",
                            "UpdateContext(%r, %r, rec=%r, **%r): %s, expected %r" % (".".join(sub), update, rec, kw, type(e).__name__, exp_exc))
        return {"nontrivial": True, "classes": classes + ["init-error"]}
    if exp_exc and exp_exc[0] == "init":
        raise Violation("UpdateContext-accepts-contradictory-arguments",
                        "UpdateContext(%r, %r, **%r)" % (".".join(sub), update, kw))
    data = [7, "data"]
    c_in = copy.deepcopy(base)
    value = (data, c_in) if case["with_context"] else data
    try:
        res = uc(value)
    except LenaKeyError:
        if exp_exc != ("call", "LenaKeyError"):
            raise Violation("UpdateContext-LenaKeyError-unexpected",
                            "UpdateContext(%r, %r, **%r) on %r" % (".".join(sub), update, kw, base))
        if c_in != base:
            raise Violation("UpdateContext-changes-context-before-raising", "%r" % (c_in,))
        return {"nontrivial": True, "classes": classes + ["call-LenaKeyError"]}
    if exp_exc:
        raise Violation("UpdateContext-missing-key-not-reported",
                        "UpdateContext(%r, %r, **%r) on %r returned %r" % (".".join(sub), update, kw, base, res))
    if not changed:
        if res is not value and res != value:
            raise Violation("UpdateContext-skip-changes-value", "%r -> %r" % (value, res))
        if case["with_context"] and c_in != base:
            raise Violation("UpdateContext-skip-changes-context", "%r" % (c_in,))
        return {"nontrivial": True, "classes": classes + ["skipped"]}
    if not (isinstance(res, tuple) and len(res) == 2):
        raise Violation("UpdateContext-result-shape", "%r" % (res,))
    if res[0] is not data or data != [7, "data"]:
        raise Violation("UpdateContext-touches-data", "%r" % (res,))
    if res[1] != exp_ctx:
        raise Violation("UpdateContext-context-differs-from-reference",
                        "UpdateContext(%r, %r, rec=%r, **%r) on %r -> %r, expected %r" % (
                            ".".join(sub), update, rec, kw, base, res[1], exp_ctx))
    inserted = ref_get(res[1], sub)
    # the inserted object shares nothing mutable with its origin, the
    # element's default / update, so later in-place changes stay local
    if src_obj_path is not None:
        origin = ref_get(res[1], src_obj_path)
        # origin may legitimately contain or be contained in the target
        # when paths overlap; only disjoint paths are judged
        ovl = sub[:len(src_obj_path)] == src_obj_path[:len(sub)] or src_obj_path[:len(sub)] == sub[:len(src_obj_path)]
        if not ovl and origin is not MISSING and gen.shared_mutables(inserted, origin):
            raise Violation("UpdateContext-context-value-not-deep-copied",
                            "item at %r shares a mutable object with its origin %r in %r" % (sub, src_obj_path, res[1]))
    # second step: mutate what was inserted, then apply the same element to
    # a fresh equal value: the result must be the same as the first time
    snapshot = copy.deepcopy(res[1])
    for obj in gen.mutable_ids(inserted).values():
        if isinstance(obj, dict):
            obj["MUT"] = 1
        elif isinstance(obj, list):
            obj.append("MUT")
    c2 = copy.deepcopy(base)
    res2 = uc(([7, "data"], c2) if case["with_context"] else [7, "data"])
    if res2[1] != snapshot:
        raise Violation("UpdateContext-second-application-differs",
                        "after mutating the first result in place, the same element gives %r instead of %r" % (res2[1], snapshot))
    nt = (mode != "simple" and nopt == 1) or len(sub) >= 2
    return {"nontrivial": nt, "classes": classes}


# ---- DeleteContext ---------------------------------------------------------

@st.composite
def delete_case(draw):
    ctx = draw(ctx_strat())
    path = biased_path(draw, ctx)
    return {"ctx": ctx, "path": path, "notation": draw(st.sampled_from(["str", "list", "tuple"])),
            "with_context": draw(st.sampled_from([True, True, True, False]))}


def judge_delete(case):
    ctx, path = case["ctx"], case["path"]
    key = ".".join(path) if case["notation"] == "str" else (list(path) if case["notation"] == "list" else tuple(path))
    exp = copy.deepcopy(ctx) if case["with_context"] else {}
    if not path:
        exp = {}
    else:
        parent = ref_get(exp, path[:-1])
        if isinstance(parent, dict) and path[-1] in parent:
            del parent[path[-1]]
    data = [1, 2]
    c = copy.deepcopy(ctx)
    value = (data, c) if case["with_context"] else data
    try:
        el = DeleteContext(key)
        res = el(value)
    except (LenaTypeError, LenaValueError):
        if path:
            raise Violation("DeleteContext-rejects-valid-key", "%r" % (key,))
        return {"nontrivial": False, "classes": ["empty-key-rejected"]}
    if case["with_context"]:
        if not (isinstance(res, tuple) and res[0] is data and data == [1, 2]):
            raise Violation("DeleteContext-touches-data", "%r" % (res,))
        if res[1] != exp:
            raise Violation("DeleteContext-context-differs-from-reference",
                            "DeleteContext(%r) on %r -> %r, expected %r" % (key, ctx, res[1], exp))
    else:
        if res is not data and res != data:
            raise Violation("DeleteContext-changes-bare-value", "%r" % (res,))
    cls = _classify_path(ctx, path)
    return {"nontrivial": len(path) >= 2 and cls != "present", "classes": [cls, case["notation"]]}


def strat_delete_bad(tier):
    return st.fixed_dictionaries({"key": st.sampled_from([None, 5, 2.5, ["a", 1], {"a": "b"}])})


def judge_delete_bad(case):
    try:
        DeleteContext(copy.deepcopy(case["key"]))
    except (LenaTypeError, LenaValueError):
        return {"nontrivial": True, "classes": ["rejected"]}
    raise Violation("DeleteContext-accepts-malformed-key", "%r" % (case["key"],))


def strat_update_bad(tier):
    return st.fixed_dictionaries({
        "which": st.sampled_from(["sub_nonstr", "sub_empty", "value_braces", "jinja_syntax", "value_with_text"]),
        "junk": st.sampled_from([None, 5, ["a"], {"a": 1}])})


def judge_update_bad(case):
    w = case["which"]
    try:
        if w == "sub_nonstr":
            UpdateContext(copy.deepcopy(case["junk"]), 1)
            want = LenaTypeError
        elif w == "sub_empty":
            UpdateContext("", 1)
        elif w == "value_braces":
            UpdateContext("a", "{{a}}{{b}}", value=True)
        elif w == "value_with_text":
            UpdateContext("a", "x{{a}}", value=True)
        elif w == "jinja_syntax":
            UpdateContext("a", "{{a b c}}")
    except LenaTypeError:
        if w != "sub_nonstr":
            raise Violation("wrong-exception-type", "%s LenaTypeError" % w)
        return {"nontrivial": True, "classes": [w]}
    except LenaValueError:
        if w == "sub_nonstr":
            raise Violation("wrong-exception-type", "%s LenaValueError" % w)
        return {"nontrivial": True, "classes": [w]}
    raise Violation("UpdateContext-accepts-malformed-argument", "%r" % (case,))


# ---- coverage-guided fuzzing of the string-level functions (atheris) ------------------------------

FUZZ_ALPH = "{}.:!ab x"
FUZZ_CTXS = [{}, {"a": 1}, {"a": {"b": 0}}, {"a": {"b": {"a": "x"}}, "b": None}, {"b": [1], "x": {"a": ""}},
             {"a": {"a": {"a": {"a": 5}}}}, {"a": "a", "b": "b"}, {"a": {"b": False}, "x": 2.5}]
_SIMPLE = None


FUZZ_TOKENS = ["{{", "}}", "a", "b", ".", "x", " ", "{", "}", ":", "!", "a.b", "{{a}}", "{{a.b}}", "_"]


def _fuzz_decode(text):
    """bytes -> (function selector, context, string). Structure-aware: templates are built from
    tokens (double braces, keys, dots ...), paths mostly from the keys that exist at the current
    level of the context, sometimes from str() of the scalar found there (the documented string
    test of contains), sometimes from foreign tokens."""
    raw = [ord(c) & 0xff for c in text]
    raw = raw + [0, 0]
    sel = raw[0] % 5
    ctx = copy.deepcopy(FUZZ_CTXS[raw[1] % len(FUZZ_CTXS)])
    body = raw[2:26]
    if sel in (2, 3):
        parts = []
        cur = ctx
        for b in body[:6]:
            if b < 150 and isinstance(cur, dict) and cur:
                k = sorted(cur)[b % len(cur)]
                parts.append(k)
                cur = cur[k]
            elif b < 190 and not isinstance(cur, (dict, list)) and cur is not MISSING and "." not in str(cur):
                parts.append(str(cur))
                cur = MISSING
            else:
                parts.append(["a", "b", "x", "", "a b", "{", "0"][b % 7])
                cur = cur.get(parts[-1], MISSING) if isinstance(cur, dict) else MISSING
        s = ".".join(parts)
    else:
        s = "".join(FUZZ_TOKENS[b % len(FUZZ_TOKENS)] for b in body)
    return sel, ctx, s


def _simple_template(s):
    """literals without braces and fields {{k.k...}} with non-empty components over [ab x]"""
    import re
    global _SIMPLE
    if _SIMPLE is None:
        _SIMPLE = re.compile(r"^(?:[ab x.:!]|\{\{[ab x]+(?:\.[ab x]+)*\}\})*$")
    return bool(_SIMPLE.match(s))


def _render_simple(s, ctx):
    import re
    def rep(m):
        v = ref_get(ctx, m.group(1).split("."))
        if v is MISSING:
            raise KeyError(m.group(1))
        return str(v)
    return re.sub(r"\{\{([^{}]*)\}\}", rep, s)


def fuzz_oracle(text):
    """judge one fuzz input; raises Violation; returns classification"""
    sel, ctx, s = _fuzz_decode(text)
    has_empty = s == "" or any(p == "" for p in s.split("."))
    snap = copy.deepcopy(ctx)
    if sel == 0:
        nested = _well_nested(s)
        try:
            fc = format_context(s)
        except (LenaTypeError, LenaValueError):
            return {"nontrivial": "{" in s, "classes": ["format:rejected"]}
        except Exception as e:
            if not nested:
                return {"nontrivial": False, "classes": ["format:not-well-nested(skipped)"]}
            raise Violation("format_context-creation-raises-" + type(e).__name__, "format_context(%r): %s" % (s, e))
        simple = _simple_template(s)
        try:
            got = fc(ctx)
        except LenaKeyError:
            if simple:
                try:
                    _render_simple(s, snap)
                except KeyError:
                    return {"nontrivial": True, "classes": ["format:missing-key"]}
                raise Violation("format_context-LenaKeyError-for-present-keys", "format_context(%r)(%r)" % (s, snap))
            return {"nontrivial": True, "classes": ["format:keyerror"]}
        except ValueError:
            if simple and ":" not in s and "!" not in s:
                raise Violation("format_context-ValueError-for-simple-template", "format_context(%r)(%r)" % (s, snap))
            return {"nontrivial": True, "classes": ["format:valueerror-at-call"]}
        except Exception as e:
            if simple or (nested and ":" not in s and "!" not in s and "{{}}" not in s):
                raise Violation("format_context-call-raises-" + type(e).__name__, "format_context(%r)(%r): %s" % (s, snap, e))
            return {"nontrivial": False, "classes": ["format:other-exception-outside-domain"]}
        if simple:
            try:
                want = _render_simple(s, snap)
            except KeyError:
                raise Violation("format_context-renders-absent-key", "format_context(%r)(%r) = %r" % (s, snap, got))
            if got != want:
                raise Violation("format_context-wrong-rendering", "format_context(%r)(%r) = %r, expected %r" % (s, snap, got, want))
        if ctx != snap:
            raise Violation("format_context-changes-context", "%r %r" % (s, snap))
        return {"nontrivial": "{{" in s, "classes": ["format:rendered" + (":simple" if simple else "")]}
    if sel == 1:
        try:
            lst = str_to_list(s)
            d = str_to_dict(s, 7)
        except (LenaTypeError, LenaValueError):
            return {"nontrivial": False, "classes": ["str_to:rejected"]}
        if not has_empty:
            if lst != s.split("."):
                raise Violation("str_to_list-differs-from-split", "%r -> %r" % (s, lst))
            marker = object()
            d = str_to_dict(s, marker)
            if get_recursively(d, s) is not marker:
                raise Violation("str_to_dict-round-trip", "%r -> %r" % (s, d))
        return {"nontrivial": not has_empty and "." in s, "classes": ["str_to"]}
    if sel == 2:
        try:
            got = get_recursively(ctx, s)
        except LenaKeyError:
            if not has_empty and ref_get(snap, s.split(".")) is not MISSING:
                raise Violation("get_recursively-LenaKeyError-for-present-key", "get_recursively(%r, %r)" % (snap, s))
            return {"nontrivial": True, "classes": ["get:absent"]}
        except (LenaTypeError, LenaValueError):
            return {"nontrivial": False, "classes": ["get:rejected"]}
        if not has_empty:
            want = ref_get(ctx, s.split("."))
            if want is MISSING or got is not want:
                raise Violation("get_recursively-wrong-item", "get_recursively(%r, %r) = %r" % (snap, s, got))
        return {"nontrivial": not has_empty, "classes": ["get:present"]}
    if sel == 3:
        try:
            got = contains(ctx, s)
        except Exception as e:
            if s == "":
                return {"nontrivial": False, "classes": ["contains:empty-string(skipped)"]}
            raise Violation("contains-raises", "contains(%r, %r): %s %s" % (snap, s, type(e).__name__, e))
        if not has_empty:
            path = s.split(".")
            if len(path) == 1:
                want = path[0] in snap
            else:
                parent = ref_get(snap, path[:-1])
                want = False if parent is MISSING else (path[-1] in parent if isinstance(parent, dict) else str(parent) == path[-1])
            if bool(got) != want:
                raise Violation("contains-differs-from-reference", "contains(%r, %r) = %r, expected %r" % (snap, s, got, want))
        return {"nontrivial": not has_empty and "." in s, "classes": ["contains"]}
    # sel == 4: UpdateContext(subcontext, update) with string arguments: only Lena exceptions at creation
    half = len(s) // 2
    sub, upd_ = s[:half], s[half:]
    try:
        uc = UpdateContext(sub, upd_)
    except (LenaTypeError, LenaValueError):
        return {"nontrivial": True, "classes": ["update:rejected"]}
    try:
        res = uc((0, ctx))
    except LenaKeyError:
        return {"nontrivial": True, "classes": ["update:missing-key"]}
    return {"nontrivial": True, "classes": ["update:applied"]}


def fuzz_cases(tier):
    """run the fuzzer, then hand every kept input and every crash to the judge"""
    import shutil
    import subprocess
    import sys
    import tempfile
    try:
        import atheris  # noqa
    except ImportError:
        yield {"text": "", "note": "atheris-not-installed"}
        yield {"text": "\x00\x01{{a.b}}", "note": "atheris-not-installed"}
        return
    runs = 20000 if tier != "thorough" else 400000
    seed = int(os.environ.get("VERIF_SEED", "1") or "1") or 1
    d = tempfile.mkdtemp(prefix="lena-c08-fuzz-")
    try:
        corpus, crashes = os.path.join(d, "corpus"), os.path.join(d, "crashes")
        os.makedirs(corpus)
        os.makedirs(crashes)
        # a few valid inputs from the test-suite next to the empty corpus
        for i, t in enumerate(["\x00\x03\x0d\x0e\x0c", "\x02\x02\x00\x00", "\x03\x02\x00\x00\xa0", "\x04\x01\x02\x04\x03\x0c", ""]):
            with open(os.path.join(corpus, "seed%d" % i), "wb") as f:
                f.write(t.encode("latin-1"))
        env = dict(os.environ)
        env["VERIF_REPO"] = REPO
        target = os.path.join(VERIF, "harness", "fuzz_c08.py")
        p = subprocess.run([sys.executable, "-W", "ignore", target, corpus, crashes, "-runs=%d" % runs, "-seed=%d" % seed,
                            "-max_len=40", "-print_final_stats=0", "-verbosity=0"],
                           stdout=subprocess.PIPE, stderr=subprocess.STDOUT, env=env, timeout=3000)
        seen = set()
        for sub in (crashes, corpus):
            for name in sorted(os.listdir(sub)):
                with open(os.path.join(sub, name), "rb") as f:
                    text = f.read().decode("latin-1")
                if text in seen:
                    continue
                seen.add(text)
                yield {"text": text, "from": os.path.basename(sub)}
    finally:
        shutil.rmtree(d, ignore_errors=True)


def judge_fuzz(case):
    return fuzz_oracle(case["text"])


CHECKS = [
    Check("addressing", judge_addressing, strategy=lambda tier: addressing_case(), quick=3000, thorough=120000,
          rule="contexts depth<=3 over {a,b,c,x,y} x paths of length 0-4 biased to present / absent-at-last-step / through-a-scalar x four key notations; "
               "non-trivial = path of length>=2 that is absent or passes through a scalar."),
    Check("bad_keys", judge_bad_keys, strategy=strat_bad_keys, quick=300, thorough=3000,
          rule="malformed arguments of get_recursively / str_to_dict / format_context raise the documented Lena exception."),
    Check("format", judge_format, strategy=lambda tier: format_case(), quick=2500, thorough=100000,
          rule="templates of 0-4 parts (literals and {{path}} fields), format_context and format_update_with; non-trivial = >=2 fields or a missing field."),
    Check("format_malformed", judge_malformed, strategy=strat_malformed, quick=1500, thorough=30000,
          rule="all short strings over '{}a.': creation raises only LenaValueError for the documented malformed shapes; not-well-nested braces skipped."),
    Check("to_string", judge_to_string, strategy=lambda tier: to_string_case(), quick=1500, thorough=60000,
          rule="JSON-typed dictionaries, key order shuffled, 0-2 point mutations: equal strings iff typed-equal."),
    Check("update_context", judge_update, strategy=lambda tier: update_case(), quick=3000, thorough=120000,
          rule="UpdateContext option matrix (simple / template / context value x default / skip / raise x recursively) against ref_set; "
               "deep-copy and second-application checks. Non-trivial = an option with a template/context value, or a nested subcontext."),
    Check("update_bad", judge_update_bad, strategy=strat_update_bad, quick=100, thorough=500,
          rule="malformed UpdateContext arguments raise LenaTypeError/LenaValueError."),
    Check("delete_context", judge_delete, strategy=lambda tier: delete_case(), quick=2500, thorough=100000,
          rule="DeleteContext with str/list/tuple keys against ref_del, paths through scalars and absent keys ignored."),
    Check("delete_bad", judge_delete_bad, strategy=strat_delete_bad, quick=60, thorough=300,
          rule="malformed DeleteContext keys raise LenaTypeError/LenaValueError."),
    Check("fuzz_parsers", judge_fuzz, cases=fuzz_cases, shards=1,
          rule="coverage-guided fuzzing (atheris / libFuzzer, 20 000 executions quick, 400 000 thorough, -seed=VERIF_SEED, empty corpus plus five valid inputs) of format_context, str_to_list / str_to_dict, "
               "get_recursively, contains and UpdateContext; bytes are decoded structurally (templates from tokens such as double braces, keys and dots; paths from the keys present in one of eight contexts, "
               "str() of the scalar found, or foreign tokens), with the oracle inside the target; the cases counted here are the inputs libFuzzer kept "
               "(each increased coverage) and any crash, re-judged in-process without the fuzzer. Non-trivial = a template with a field / a dotted path."),
]

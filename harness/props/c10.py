"""C10 - Elements pass values they do not select through unchanged."""
import copy
import os
import stat
import sys

from harness.core import Check, Violation, short
from harness import instr
from hypothesis import strategies as st

import lena.core
import lena.flow
import lena.output
import lena.structures
from lena.flow import RunIf, MapGroup
from lena.output import ToCSV, Write, RenderLaTeX, LaTeXToPDF, PDFToPNG
from lena.structures import histogram, graph, HistToGraph, MapBins, IterateBins

PROPERTY = "C10"
LEVEL = "exploration"
RULE = ("for each of ten selective elements: a list A of values it selects, a list B of values it does not (bare, foreign objects, pairs with "
        "unrelated / disabling / scalar-output contexts) and an interleaving; oracles: identity and order of B in the output, B equal to "
        "its snapshots, results for A equal to run(A) alone, file system after the run equal to that after run(A) alone, audit log empty for B-only flows.")
ASSUMPTIONS = [
    "converters are stubs: LaTeXToPDF gets a create_command running `sh -c cat tex > pdf`, PDFToPNG finds a shell script named pdftoppm first on PATH",
    "results of LaTeXToPDF are compared as a multiset (its subprocesses finish asynchronously), all others as lists",
    "file-system writes are observed with sys.addaudithook (open for writing, mkdir, remove, rename, Popen) and by comparing directory snapshots",
]

# ---- audit hook (installed once per process, gated) -------------------------------------------

_AUDIT = {"on": False, "log": []}
_WRITE_FLAGS = os.O_WRONLY | os.O_RDWR | os.O_CREAT | os.O_TRUNC | os.O_APPEND


def _hook(event, args):
    if not _AUDIT["on"]:
        return
    if event == "open":
        path, mode, flags = args
        if isinstance(flags, int) and flags & _WRITE_FLAGS:
            _AUDIT["log"].append(("open-for-writing", str(path)))
        elif isinstance(mode, str) and any(c in mode for c in "wax+"):
            _AUDIT["log"].append(("open-for-writing", str(path)))
    elif event in ("os.mkdir", "os.remove", "os.rename", "os.rmdir", "subprocess.Popen", "os.system",
                   "os.truncate", "shutil.rmtree", "shutil.move", "shutil.copyfile", "os.symlink", "os.link"):
        _AUDIT["log"].append((event, str(args[0]) if args else ""))


_installed = []


def audit_on():
    if not _installed:
        sys.addaudithook(_hook)
        _installed.append(True)
    _AUDIT["log"] = []
    _AUDIT["on"] = True


def audit_off():
    _AUDIT["on"] = False
    return list(_AUDIT["log"])


# ---- values ---------------------------------------------------------------------------------------

def h1d(n=3):
    return histogram([0, 1, 2, 4][:n + 1], list(range(1, n + 1)))


def h2d():
    return histogram([[0, 1, 2], [0, 5]], [[1], [2]])


def h3d():
    return histogram([[0, 1], [0, 1], [0, 1]], [[[7]]])


def hh(with_ctx):
    cells = [histogram([0, 1], [5]), histogram([0, 1], [6])]
    if with_ctx:
        cells = [(c, {"c": i}) for i, c in enumerate(cells)]
    return histogram([0, 1, 3], cells)


CTX = {
    "plain": {"x": 1, "n": {"m": [1, 2]}},
    "output_scalar": {"output": 5},
    "output_other": {"output": {"x": 1}},
    "variable": {"variable": {"name": "pt", "unit": "GeV"}},
    "empty": {},
    "combine": {"variable": {"name": "xy", "dim": 2, "combine": [{"name": "x"}, {"name": "y"}]}},
}


def build_value(r):
    """recipe -> fresh value"""
    k = r[0]
    if k == "int":
        return r[1]
    if k == "float":
        return 2.5
    if k == "t2":
        return (1, 2)
    if k == "t3":
        return (1, 2, 3)
    if k == "V":
        return instr.V(r[1])
    if k == "none":
        return None
    if k == "dict":
        return {"d": 1}
    if k == "str":
        return "s%d" % r[1]
    if k == "pair":
        return (build_value(r[1]), copy.deepcopy(CTX[r[2]]))
    if k == "list":
        return [1, 2]
    if k == "bytes":
        return b"raw%d" % r[1] if r[1] else b""
    # element-specific
    if k == "hist1d":
        return (h1d(), copy.deepcopy(CTX[r[1]])) if r[1] else h1d()
    if k == "hist2d":
        return (h2d(), copy.deepcopy(CTX[r[1]])) if r[1] else h2d()
    if k == "hist3d":
        return (h3d(), copy.deepcopy(CTX[r[1]])) if r[1] else h3d()
    if k == "hist_nocsv":
        return (h1d(), {"output": {"to_csv": False}, "x": 1})
    if k == "graph":
        return (graph([[0, 1], [2, 3]], field_names="x,y"), {"k": 1})
    if k == "hist_nograph":
        return (h1d(), {"histogram": {"to_graph": False}, "x": 1})
    if k == "hist_strbins":
        return (histogram([0, 1, 2], ["a", "b"]), {"x": 1})
    if k == "histhist":
        val = hh(r[1])
        return (val, copy.deepcopy(CTX[r[2]])) if r[2] else val
    if k == "text":
        c = {"output": {"filename": "f%d" % r[1]}}
        if r[2]:
            c["output"]["dirname"] = "d%d" % r[1]
        return ("content %d %s" % (r[1], r[3]), c)
    if k == "text_bare":
        return "bare text %d" % r[1]
    if k == "str_nowrite":
        return ("not to be written", {"output": {"write": False, "filename": "nw"}})
    if k == "written_path":
        d = "wd%d" % r[1]
        path = os.path.join("out", d, "w%d.txt" % r[1])
        return (path, {"output": {"filename": "w%d" % r[1], "fileext": "txt", "dirname": d}})
    if k == "str_filetype":
        return ("file.%s" % r[1], {"output": {"filetype": r[1], "changed": True}})
    if k == "csvval":
        return ("out/p%d.csv" % r[1], {"output": {"filetype": "csv", "filepath": "out/p%d.csv" % r[1]}, "name": "p%d" % r[1]})
    if k == "texfile":
        return ("tex/t%d.tex" % r[1], {"output": {"filetype": "tex"}, "i": r[1]})
    if k == "pdffile":
        return ("pdf/q%d.pdf" % r[1], {"output": {"filetype": "pdf"}, "i": r[1]})
    if k == "sel":
        return ("sel", r[1], r[1])
    if k == "sel_pair":
        return (("sel", r[1], r[1]), {"x": r[1]})
    if k == "group":
        return ([r[1], r[1] + 1], {"group": [{"a": 1, "i": 0}, {"a": 1, "i": 1}], "a": 1})
    if k == "list_nogroup":
        return ([1, 2], {"x": 1})
    if k == "hist_listbins":
        # bins whose contents are lists: the example bin is a list (not selected by select_bins=int)
        return (histogram([0, 1, 2], [[1, 2], [3, 4]]), {"x": 1})
    if k == "perm":
        # a foreign object with a data field named write (not a method)
        return Permissions(True, r[1], False)
    if k == "perm_pair":
        return (Permissions(True, True, False), {"x": 1})
    if k == "pair_dup":
        return (2.5, {"output": {"duplicate_last_bin": r[1]}})
    if k == "hist_nocsv_dup":
        return (h1d(), {"output": {"to_csv": False, "duplicate_last_bin": r[1]}})
    if k == "scalar_group":
        return (5, {"group": [{"a": 1}]})
    if k == "scalar_group_empty":
        return (2.5, {"group": []})
    raise AssertionError(r)


import collections
Permissions = collections.namedtuple("Permissions", ["read", "write", "execute"])


def f_dbl(v):
    if isinstance(v, tuple) and len(v) == 2 and isinstance(v[1], dict):
        return (v[0] * 2, v[1])
    return v * 2


def _item_gt3(v):
    d = v[0] if isinstance(v, tuple) and len(v) == 2 and isinstance(v[1], dict) else v
    return d > 3


def f_ran(v):
    return ("ran", v)


class IdxTag(object):
    """tags every value with its position in the flow it is given (what it yields for a value
    depends on the whole flow it sees)"""

    def run(self, flow):
        for i, v in enumerate(flow):
            yield ("tagged", i, v)


def _is_sel(v):
    d = v[0] if isinstance(v, tuple) and len(v) == 2 and isinstance(v[1], dict) else v
    return isinstance(d, tuple) and len(d) == 3 and d[0] == "sel"


def _stub_cmd(texfile_name, outfilename, output_directory, context):
    return ["sh", "-c", "cat '%s' > '%s'" % (texfile_name, outfilename)]


def setup_sandbox():
    os.makedirs("templates")
    with open("templates/t.tex", "w") as f:
        f.write("T \\VAR{ name } \\VAR{ output.filepath }\n")
    os.makedirs("tex")
    os.makedirs("pdf")
    for i in range(4):
        with open("tex/t%d.tex" % i, "w") as f:
            f.write("tex %d\n" % i)
        with open("pdf/q%d.pdf" % i, "w") as f:
            f.write("pdf %d\n" % i)
    os.makedirs("bin")
    with open("bin/pdftoppm", "w") as f:
        f.write('#!/bin/sh\ncp "$1" "$2.png"\n')
    os.chmod("bin/pdftoppm", stat.S_IRWXU)


GENERIC_B = [["int", 3], ["int", 4], ["float"], ["t2"], ["t3"], ["V", 1], ["V", 2], ["none"], ["dict"],
             ["pair", ["int", 7], "plain"], ["pair", ["V", 3], "output_scalar"], ["pair", ["int", 8], "output_other"],
             ["pair", ["list"], "plain"], ["pair", ["int", 9], "variable"], ["pair", ["int", 1], "empty"],
             ["pair", ["int", 2], "combine"], ["pair", ["t3"], "plain"],
             ["bytes", 1], ["bytes", 0], ["pair", ["bytes", 2], "plain"]]
STR_B = [["str", 1], ["str", 2], ["pair", ["str", 3], "plain"], ["pair", ["str", 4], "variable"]]

ELEMENTS = {
    "ToCSV": {"make": lambda: ToCSV(), "A": [["hist1d", "plain"], ["hist1d", None], ["hist2d", "plain"], ["graph"], ["hist1d", "variable"]],
              "B": GENERIC_B + STR_B + [["hist_nocsv"], ["hist3d", "plain"], ["hist3d", None], ["hist3d", "output_other"],
                                        ["pair_dup", False], ["pair_dup", True], ["hist_nocsv_dup", False], ["hist_nocsv_dup", True]]},
    "Write": {"make": lambda: Write("out", verbose=False),
              "A": [["text", 1, False, "a"], ["text", 2, True, "a"], ["text", 1, False, "b"], ["text_bare", 1], ["text", 3, True, "c"]],
              "B": GENERIC_B + [["str_nowrite"], ["written_path", 1], ["written_path", 2], ["hist1d", "plain"],
                                ["perm", True], ["perm", False], ["perm_pair"]]},
    "RenderLaTeX": {"make": lambda: RenderLaTeX("t.tex", template_dir="templates"),
                    "A": [["csvval", 1], ["csvval", 2], ["csvval", 3]],
                    "B": GENERIC_B + STR_B + [["str_filetype", "tex"], ["str_filetype", "pdf"], ["hist1d", "plain"]]},
    "RenderLaTeXVerbose": {"make": lambda: RenderLaTeX("t.tex", template_dir="templates", verbose=2),
                           "A": [["csvval", 1], ["csvval", 2]],
                           "B": GENERIC_B + STR_B + [["str_filetype", "tex"], ["hist1d", "plain"]]},
    "WriteVerbose": {"make": lambda: Write("out", verbose=True),
                     "A": [["text", 1, False, "a"], ["text_bare", 1]],
                     "B": GENERIC_B + [["str_nowrite"], ["written_path", 1], ["hist1d", "plain"]]},
    "LaTeXToPDF": {"make": lambda: LaTeXToPDF(verbose=0, create_command=_stub_cmd),
                   "A": [["texfile", 0], ["texfile", 1], ["texfile", 2]],
                   "B": GENERIC_B + STR_B + [["str_filetype", "csv"], ["str_filetype", "pdf"], ["hist1d", "plain"]], "multiset": True},
    "PDFToPNG": {"make": lambda: PDFToPNG(verbose=False),
                 "A": [["pdffile", 0], ["pdffile", 1], ["pdffile", 2]],
                 "B": GENERIC_B + STR_B + [["str_filetype", "tex"], ["str_filetype", "png"], ["str_filetype", "csv"]], "needs_path": True},
    "HistToGraph": {"make": lambda: HistToGraph(), "A": [["hist1d", "plain"], ["hist1d", None], ["hist2d", "plain"], ["hist1d", "variable"]],
                    "B": GENERIC_B + STR_B + [["hist_nograph"], ["graph"]]},
    "MapBins": {"make": lambda: MapBins(f_dbl, select_bins=int), "A": [["hist1d", "plain"], ["hist2d", "plain"], ["hist1d", None]],
                "B": GENERIC_B + STR_B + [["hist_strbins"], ["histhist", True, "plain"], ["graph"], ["hist_listbins"]]},
    "IterateBins": {"make": lambda: IterateBins(), "A": [["histhist", True, "plain"], ["histhist", False, "empty"], ["histhist", True, None],
                                                           ["histhist", True, "variable"]],
                    "B": GENERIC_B + STR_B + [["hist1d", "plain"], ["hist1d", "variable"], ["hist2d", "combine"], ["hist_strbins"], ["graph"]]},
    "RunIf": {"make": lambda: RunIf(_is_sel, f_ran), "A": [["sel", 1], ["sel", 2], ["sel_pair", 3]],
              "B": GENERIC_B + STR_B + [["hist1d", "plain"], ["graph"]]},
    "RunIfStateful": {"make": lambda: RunIf(_is_sel, IdxTag(), lena.flow.Count()), "A": [["sel", 1], ["sel", 2], ["sel_pair", 3], ["sel", 4]],
                      "B": GENERIC_B + STR_B + [["hist1d", "plain"]]},
    # a mapped sequence that yields nothing for every item of some groups (those are dropped with a warning)
    "MapGroupFilter": {"make": lambda: MapGroup(lena.flow.Filter(_item_gt3), map_scalars=False), "A": [["group", 1], ["group", 5], ["group", 0]],
                       "B": GENERIC_B + STR_B + [["list_nogroup"], ["scalar_group"], ["scalar_group_empty"], ["hist1d", "plain"]]},
    "MapGroup": {"make": lambda: MapGroup(f_dbl, map_scalars=False), "A": [["group", 1], ["group", 5]],
                 "B": GENERIC_B + STR_B + [["list_nogroup"], ["scalar_group"], ["scalar_group_empty"], ["hist1d", "plain"]]},
}


def norm(v):
    if isinstance(v, histogram):
        return ("histogram", repr(v.edges), repr(v.bins))
    if isinstance(v, graph):
        return ("graph", repr(v.coords), repr(v.field_names), repr(v.scale()) if hasattr(v, "scale") else None)
    if isinstance(v, tuple):
        return tuple(norm(x) for x in v)
    if isinstance(v, list):
        return [norm(x) for x in v]
    if isinstance(v, dict):
        return dict((k, norm(x)) for k, x in v.items())
    return v


def run_flow(name, flow):
    spec = ELEMENTS[name]
    old_path = os.environ.get("PATH", "")
    if spec.get("needs_path"):
        os.environ["PATH"] = os.path.join(os.getcwd(), "bin") + os.pathsep + old_path
    try:
        audit_on()
        try:
            import contextlib
            import io
            with contextlib.redirect_stdout(io.StringIO()):
                out = list(spec["make"]().run(iter(flow)))
        finally:
            log = audit_off()
    finally:
        os.environ["PATH"] = old_path
    return out, log


def judge(case):
    name = case["el"]
    spec = ELEMENTS[name]
    a_rec, b_rec, order = case["A"], case["B"], case["order"]
    classes = ["el:" + name]
    with instr.Sandbox("lena-c10-") as sb:
        setup_sandbox()
        before = sb.snapshot(with_meta=False)
        A = [build_value(r) for r in a_rec]
        B = [build_value(r) for r in b_rec]
        snaps = [norm(copy.deepcopy(b)) for b in B]
        ia, ib = iter(A), iter(B)
        flow = [next(ia) if o == "a" else next(ib) for o in order]
        out, log = run_flow(name, flow)
        after_mixed = sb.snapshot(with_meta=False)
    # 1. unselected values: same objects, same relative order, once each
    pos = []
    for j, b in enumerate(B):
        where = [i for i, o in enumerate(out) if o is b]
        if len(where) != 1:
            raise Violation("unselected-value-not-passed-as-the-same-object:" + name,
                            "%s: flow %s: unselected value %s appears %d times in the output %s" % (
                                name, short([r for r in case["flow_recipes"]], 400), b_rec[j], len(where), short(out, 400)))
        pos.append(where[0])
    if pos != sorted(pos):
        raise Violation("unselected-values-reordered:" + name, "%s: %s -> positions %s" % (name, b_rec, pos))
    # 2. ... and untouched
    for j, b in enumerate(B):
        if norm(b) != snaps[j]:
            raise Violation("unselected-value-changed:" + name,
                            "%s: unselected value %s became %s (was %s); flow %s" % (name, b_rec[j], short(b, 300), short(snaps[j], 300),
                                                                                      short(case["flow_recipes"], 300)))
    # 3. results for the selected values do not depend on the unselected ones
    selected_results = [o for i, o in enumerate(out) if i not in set(pos)]
    with instr.Sandbox("lena-c10-") as sb2:
        setup_sandbox()
        A2 = [build_value(r) for r in a_rec]
        out_alone, log_alone = run_flow(name, A2)
        after_alone = sb2.snapshot(with_meta=False)
    got, want = norm(selected_results), norm(out_alone)
    if spec.get("multiset"):
        got, want = sorted(got, key=repr), sorted(want, key=repr)
    if got != want:
        raise Violation("results-for-selected-values-depend-on-unselected-ones:" + name,
                        "%s: flow %s gives for the selected values %s, the selected values alone give %s" % (
                            name, short(case["flow_recipes"], 300), short(selected_results, 400), short(out_alone, 400)))
    if after_mixed != after_alone:
        diff = sorted(set(after_mixed) ^ set(after_alone)) or [k for k in after_mixed if after_mixed[k] != after_alone.get(k)]
        raise Violation("file-system-differs-with-unselected-values:" + name,
                        "%s: flow %s: files %s differ from those after running the selected values alone" % (
                            name, short(case["flow_recipes"], 300), diff))
    # 4. nothing selected: the file system is not touched at all
    if not A:
        if log:
            raise Violation("file-system-touched-for-unselected-values:" + name,
                            "%s: flow %s: %s" % (name, short(case["flow_recipes"], 300), log[:5]))
        if after_mixed != before:
            raise Violation("file-system-touched-for-unselected-values:" + name, "%s: snapshot differs" % name)
        classes.append("unselected-only")
    nb_pairs = sum(1 for r in b_rec if r[0] not in ("int", "float", "t2", "t3", "V", "none", "dict", "str", "list"))
    concat = order == sorted(order) or order == sorted(order, reverse=True)
    nontrivial = len(A) >= 1 and len(B) >= 2 and nb_pairs >= 1 and not concat
    classes.append("A:%d" % len(A))
    return {"nontrivial": nontrivial, "classes": classes}


@st.composite
def cases(draw, names=None):
    name = draw(st.sampled_from(names or sorted(ELEMENTS)))
    spec = ELEMENTS[name]
    slow = name in ("LaTeXToPDF", "PDFToPNG")
    a = draw(st.lists(st.sampled_from(spec["A"]), max_size=2 if slow else 4, unique_by=repr))
    b = draw(st.lists(st.sampled_from(spec["B"]), max_size=6, unique_by=repr))
    order = draw(st.permutations(["a"] * len(a) + ["b"] * len(b)))
    ia, ib = iter(a), iter(b)
    recipes = [next(ia) if o == "a" else next(ib) for o in order]
    return {"el": name, "A": a, "B": b, "order": list(order), "flow_recipes": recipes}


FAST = sorted(n for n in ELEMENTS if n not in ("LaTeXToPDF", "PDFToPNG"))

CHECKS = [
    Check("interleave", judge, strategy=lambda tier: cases(names=FAST), quick=2400, thorough=60000,
          rule="ToCSV, Write, RenderLaTeX, HistToGraph, MapBins, IterateBins, RunIf (with a per-value and with a flow-dependent inner sequence), MapGroup(map_scalars=False; also with a filtering sequence that empties some groups): 0-4 selected values, 0-6 unselected ones from a pool of ~25 per element "
               "(bare numbers, tuples, foreign objects, None, dicts, strings, pairs with unrelated / variable / scalar-output contexts, and the element's documented disabling cases: output.to_csv False, 3-dimensional histograms, "
               "output.write False, data equal to the path it would write, foreign filetypes, histogram.to_graph False, unselected bin types, non-groups), every interleaving. "
               "Non-trivial = >= 1 selected, >= 2 unselected with a (data, context) pair among them, and an interleaving that is not a concatenation."),
    Check("interleave_subprocess", judge, strategy=lambda tier: cases(names=["LaTeXToPDF", "PDFToPNG"]), quick=160, thorough=3000,
          rule="the same for LaTeXToPDF (stub create_command) and PDFToPNG (stub pdftoppm on PATH), 0-2 selected values."),
]


from .. import covfuzz  # noqa
CHECKS.append(covfuzz.check(CHECKS, "harness.props.c10", "interleave", quick=2000, thorough=40000))

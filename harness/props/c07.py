"""C07 - Nested-dictionary algebra: intersection, difference, recursive update."""
import copy
import itertools

from harness.core import Check, Violation, short
from harness import gen
from hypothesis import strategies as st

from lena.core import LenaTypeError, LenaValueError
from lena.context import (intersection, difference, update_recursively,
                          update_nested, str_to_dict)

PROPERTY = "C07"
LEVEL = "exploration"
RULE = ("intersection/difference/update_recursively/update_nested against "
        "independent recursive specifications (meet, diff, upd), lattice laws, "
        "reconstruction law, argument snapshots and identity-graph disjointness.")
ASSUMPTIONS = [
    "no recursive dictionaries (documented as forbidden)",
    "== is Python's (0 == False); the reference compares the same way as the code",
    "aliasing left between d and other after update_recursively is not judged; difference may return sub-dicts of d1 (documented)",
]

LEAVES = [0, 1, False, None, "", "x", {}, []]
_SENT = object()


def _dicts(depth):
    if depth == 0:
        return [{}]
    sub = LEAVES + [d for d in _dicts(depth - 1) if d]
    subs = [_SENT] + sub
    res = []
    for va in subs:
        for vb in subs:
            d = {}
            if va is not _SENT:
                d["a"] = copy.deepcopy(va)
            if vb is not _SENT:
                d["b"] = copy.deepcopy(vb)
            res.append(d)
    return res


_U1 = _dicts(1)
_U2 = None


def universe(n_deep):
    global _U2
    if _U2 is None:
        _U2 = [d for d in _dicts(2) if d not in _U1]
    step = max(1, len(_U2) // n_deep)
    return _U1 + _U2[3::step][:n_deep]


# ---- independent specifications -------------------------------------------

def contained(x, y):
    if x == y:
        return True
    if isinstance(x, dict) and isinstance(y, dict):
        return all(k in y and contained(x[k], y[k]) for k in x)
    return False


def meet(a, b, L=-1):
    if L == 0:
        return copy.deepcopy(a) if a == b else {}
    r = {}
    for k in a:
        if k in b:
            if a[k] == b[k]:
                r[k] = copy.deepcopy(a[k])
            elif L == 1:
                pass
            elif isinstance(a[k], dict) and isinstance(b[k], dict):
                r[k] = meet(a[k], b[k], L - 1)
    return r


def diff(a, b, L=-1):
    if a == b:
        return {}
    if L == 0:
        return a
    r = {}
    for k in a:
        if k not in b:
            r[k] = a[k]
        elif a[k] != b[k]:
            if isinstance(a[k], dict) and isinstance(b[k], dict) and L != 1:
                s = diff(a[k], b[k], L - 1)
                if s:
                    r[k] = s
            else:
                r[k] = a[k]
    return r


def upd(d, other):
    r = copy.deepcopy(d)
    for k, v in other.items():
        if isinstance(v, dict) and isinstance(r.get(k), dict) and k in r:
            r[k] = upd(r[k], v)
        else:
            r[k] = copy.deepcopy(v)
    return r


def _has_falsy_conflict(d1, d2):
    for k in d1:
        if k in d2 and d1[k] != d2[k]:
            if not d1[k] or not d2[k]:
                return True
            if isinstance(d1[k], dict) and isinstance(d2[k], dict) \
                    and _has_falsy_conflict(d1[k], d2[k]):
                return True
    return False


def _depth(d):
    if not isinstance(d, dict) or not d:
        return 0
    return 1 + max(_depth(v) for v in d.values())


def _aliased(d, alias):
    """(value, object): with alias = [src, dst] and d[src] a dictionary, the value has d[dst] equal to d[src]
    and the object holds the very same dictionary under both keys"""
    obj = copy.deepcopy(d)
    if alias and isinstance(d.get(alias[0]), dict) and alias[0] != alias[1]:
        d = dict(d)
        d[alias[1]] = copy.deepcopy(d[alias[0]])
        obj = copy.deepcopy(d)
        obj[alias[1]] = obj[alias[0]]
    return d, obj


def judge_pair(case):
    d1, d2, L = case["d1"], case["d2"], case["level"]
    # an argument may hold one sub-dictionary object at two places (no recursion: a DAG); as a value it is
    # the dictionary with two equal sub-dictionaries
    d1, a = _aliased(d1, case.get("alias1"))
    d2, b = _aliased(d2, case.get("alias2"))
    i = intersection(a, b, level=L) if L != -1 or case.get("explicit", True) \
        else intersection(a, b)
    if a != d1 or b != d2:
        raise Violation("intersection-mutates-argument", "%s" % (case,))
    exp = meet(d1, d2, L)
    if i != exp or type(i) is not dict:
        raise Violation("intersection-differs-from-meet",
                        "intersection(%r, %r, level=%r) = %r, expected %r" % (d1, d2, L, i, exp))
    if not (contained(i, d1) and contained(i, d2)):
        raise Violation("intersection-not-contained", "%r" % (case,))
    if gen.shared_mutables(i, a) or gen.shared_mutables(i, b):
        raise Violation("intersection-shares-object-with-argument",
                        "intersection(%r, %r, level=%r) shares a mutable object with an argument" % (d1, d2, L))
    j = intersection(b, a, level=L)
    if j != i:
        raise Violation("intersection-not-commutative",
                        "%r vs %r for %r" % (i, j, case))
    idem = intersection(a, a, level=L)
    if idem != d1:
        raise Violation("intersection-not-idempotent",
                        "intersection(d,d,level=%r) = %r for d=%r" % (L, idem, d1))
    df = difference(a, b, level=L)
    if a != d1 or b != d2:
        raise Violation("difference-mutates-argument", "%r" % (case,))
    expd = diff(d1, d2, L)
    if df != expd:
        raise Violation("difference-differs-from-spec",
                        "difference(%r, %r, level=%r) = %r, expected %r" % (d1, d2, L, df, expd))
    if not contained(df, d1):
        raise Violation("difference-not-contained-in-d1", "%r -> %r" % (case, df))
    rec = copy.deepcopy(i)
    dfc = copy.deepcopy(df)
    update_recursively(rec, dfc)
    if rec != d1:
        raise Violation("reconstruction-law-fails",
                        "update_recursively(intersection, difference) = %r != d1 for %r" % (rec, case))
    if a != d1 or b != d2:
        raise Violation("argument-changed", "%r" % (case,))
    nt = _has_falsy_conflict(d1, d2) or (
        max(_depth(d1), _depth(d2)) >= 2 and bool(exp) and exp != d1)
    return {"nontrivial": nt,
            "classes": ["level=%d" % L,
                        "falsy-conflict" if _has_falsy_conflict(d1, d2) else "no-falsy-conflict",
                        "meet-empty" if not exp else ("meet=d1" if exp == d1 else "meet-partial")]}


LEVELS = [-1, 0, 1, 2, 3]


def cases_pairs(tier):
    n_deep = 260 if tier == "thorough" else 60
    U = universe(n_deep)
    n1 = len(_U1)
    for (i1, d1), (i2, d2) in itertools.product(enumerate(U), enumerate(U)):
        for L in LEVELS:
            yield {"d1": d1, "d2": d2, "level": L}


def _fold_meet(ds, L):
    if not ds:
        return {}
    r = copy.deepcopy(ds[0])
    for d in ds[1:]:
        r = meet(r, d, L)
        if not r:
            return r
    return r


def judge_triple(case):
    ds, L = case["ds"], case["level"]
    cp = [copy.deepcopy(d) for d in ds]
    i = intersection(*cp, level=L)
    if cp != ds:
        raise Violation("intersection-mutates-argument", "%r" % (case,))
    exp = _fold_meet(ds, L)
    if i != exp:
        raise Violation("nary-intersection-differs-from-fold-of-meets",
                        "intersection(*%r, level=%r) = %r, expected %r" % (ds, L, i, exp))
    for d in cp:
        if gen.shared_mutables(i, d):
            raise Violation("intersection-shares-object-with-argument", "%r" % (case,))
        if not contained(i, d):
            raise Violation("intersection-not-contained", "%r" % (case,))
    if len(ds) == 3 and L == -1:
        x, y, z = cp
        l = intersection(intersection(x, y), z)
        r = intersection(x, intersection(y, z))
        if l != r or l != i:
            raise Violation("intersection-not-associative",
                            "%r: (xy)z=%r x(yz)=%r xyz=%r" % (ds, l, r, i))
    for perm in itertools.permutations(range(len(ds))):
        p = intersection(*[cp[k] for k in perm], level=L)
        if p != i and L == -1:
            raise Violation("intersection-not-commutative",
                            "%r perm %r: %r vs %r" % (ds, perm, p, i))
    return {"nontrivial": len(ds) >= 3 and bool(exp),
            "classes": ["n=%d" % len(ds), "level=%d" % L,
                        "meet-empty" if not exp else "meet-nonempty"]}


def cases_triples(tier):
    U = universe(40)
    # stratified: every 3rd of the shallow ones + the deep sample
    S = _U1[::3] + U[len(_U1):][:14]
    if tier != "thorough":
        S = S[::2]
    for t in itertools.product(S, repeat=3):
        yield {"ds": list(t), "level": -1}
    for t in itertools.product(S[::2], repeat=3):
        for L in (0, 1, 2):
            yield {"ds": list(t), "level": L}
    yield {"ds": [], "level": -1}
    for d in S:
        yield {"ds": [d], "level": -1}


# ---- generated pairs / triples from a common ancestor ---------------------

_gen_leaf = st.one_of(st.sampled_from(LEAVES), st.sampled_from([2, 1.5, "y", [1], [0, {}]]))


def _mutations(d, draw_list):
    """Apply a list of (path-index, op, value) mutations to a deep copy."""
    d = copy.deepcopy(d)
    for sel, op, val in draw_list:
        paths = gen.paths_of(d)
        if op == "add" or not paths:
            # add below a random dict node
            nodes = [()] + [p for p in paths if isinstance(gen.ref_get(d, p)[1], dict)]
            p = nodes[sel % len(nodes)]
            node = gen.ref_get(d, p)[1]
            node[["a", "b", "c"][sel % 3]] = copy.deepcopy(val)
            continue
        p = paths[sel % len(paths)]
        parent = gen.ref_get(d, p[:-1])[1]
        if op == "del":
            del parent[p[-1]]
        else:
            parent[p[-1]] = copy.deepcopy(val)
    return d


_alias = st.one_of(st.none(), st.none(), st.none(), st.permutations(["a", "b", "c"]).map(lambda p: list(p[:2])))


def strat_generated(tier):
    base = gen.nested_dicts(keys=("a", "b", "c"), depth=3, leaf=_gen_leaf)
    mut = st.lists(st.tuples(st.integers(0, 50), st.sampled_from(["add", "del", "set"]),
                             st.one_of(_gen_leaf, st.just({}), st.just({"a": 0}))),
                   max_size=3)
    return st.builds(
        lambda b, m1, m2, L, al1, al2: {"d1": _mutations(b, m1), "d2": _mutations(b, m2), "level": L, "alias1": al1, "alias2": al2},
        base, mut, mut, st.sampled_from(LEVELS + [-1, -1]), _alias, _alias)


def strat_gen_triples(tier):
    base = gen.nested_dicts(keys=("a", "b", "c"), depth=3, leaf=_gen_leaf)
    mut = st.lists(st.tuples(st.integers(0, 50), st.sampled_from(["add", "del", "set"]),
                             st.one_of(_gen_leaf, st.just({}))), max_size=2)
    return st.builds(
        lambda b, ms, L: {"ds": [_mutations(b, m) for m in ms], "level": L},
        base, st.lists(mut, min_size=2, max_size=4), st.sampled_from([-1, -1, 0, 1, 2]))


# ---- update_recursively / update_nested / type errors ----------------------

def strat_update(tier):
    d = gen.nested_dicts(keys=("a", "b", "c"), depth=3, leaf=_gen_leaf)
    key = st.sampled_from(["a", "b", "c"])
    return st.one_of(
        st.fixed_dictionaries({"op": st.just("upd"), "d": d, "other": d}),
        st.fixed_dictionaries({"op": st.just("upd_str"), "d": d,
                               "path": st.lists(key, min_size=1, max_size=3),
                               "value": st.one_of(_gen_leaf, st.just({}), d)}),
        st.fixed_dictionaries({"op": st.just("nested"), "d": d, "key": key,
                               "other": d, "chain": st.integers(0, 3)}),
        st.fixed_dictionaries({"op": st.just("types"),
                               "bad": st.sampled_from([None, 1, "s", [1], ["a"], 2.5]),
                               "d": d, "which": st.integers(0, 5)}),
    )


def judge_update(case):
    op = case["op"]
    if op == "upd":
        d, other = copy.deepcopy(case["d"]), copy.deepcopy(case["other"])
        update_recursively(d, other)
        exp = upd(case["d"], case["other"])
        if d != exp:
            raise Violation("update_recursively-differs-from-spec",
                            "update_recursively(%r, %r) -> %r, expected %r" % (case["d"], case["other"], d, exp))
        if other != case["other"]:
            raise Violation("update_recursively-changes-other", "%r" % (case,))
        if not contained(other, d):
            raise Violation("update_recursively-other-not-contained", "%r" % (case,))
        return {"nontrivial": bool(case["other"]) and bool(case["d"])
                and any(k in case["d"] for k in case["other"]), "classes": ["upd"]}
    if op == "upd_str":
        d = copy.deepcopy(case["d"])
        val = copy.deepcopy(case["value"])
        s = ".".join(case["path"])
        update_recursively(d, s, val)
        exp = upd(case["d"], str_to_dict(s, case["value"]))
        if d != exp:
            raise Violation("update_recursively-string-form-differs",
                            "%r -> %r expected %r" % (case, d, exp))
        if val != case["value"]:
            raise Violation("update_recursively-changes-value", "%r" % (case,))
        return {"nontrivial": len(case["path"]) > 1, "classes": ["upd_str"]}
    if op == "nested":
        key = case["key"]
        d = copy.deepcopy(case["d"])
        other = copy.deepcopy(case["other"])
        # make a chain other[key][key]... of the requested length of dicts
        cur = other
        for _ in range(case["chain"]):
            cur[key] = {"a": "chain"} if key != "a" else {"b": "chain"}
            cur = cur[key]
        cur.pop(key, None)
        other_snapshot = copy.deepcopy(other)
        had = key in d
        old = d.get(key)
        others = dict((k, copy.deepcopy(v)) for k, v in d.items() if k != key)
        update_nested(key, d, other)
        if d[key] is not other:
            raise Violation("update_nested-d[key]-is-not-other", "%r" % (case,))
        for k in others:
            if k not in d or d[k] != others[k]:
                raise Violation("update_nested-changes-other-items", "%r" % (case,))
        if set(d) != set(others) | {key}:
            raise Violation("update_nested-changes-other-items", "%r" % (case,))
        if had:
            cur = other
            found = False
            for _ in range(case["chain"] + 2):
                if not isinstance(cur, dict) or key not in cur:
                    break
                cur = cur[key]
                if cur is old:
                    found = True
                    break
            if not found:
                raise Violation("update_nested-loses-previous-value",
                                "previous d[%r] not reachable under the new one: %r -> %r" % (key, case, d))
            # it must sit at the deepest level of the chain
            depth = 0
            cur = other
            while cur is not old:
                cur = cur[key]
                depth += 1
            if depth != case["chain"] + 1:
                raise Violation("update_nested-inserts-at-wrong-level",
                                "depth %d, expected %d: %r" % (depth, case["chain"] + 1, case))
        else:
            if other != other_snapshot:
                raise Violation("update_nested-changes-other-needlessly", "%r" % (case,))
        return {"nontrivial": had and case["chain"] > 0, "classes": ["nested", "chain=%d" % case["chain"]]}
    if op == "types":
        bad, d, w = case["bad"], copy.deepcopy(case["d"]), case["which"]
        try:
            if w == 0:
                intersection(d, bad)
            elif w == 1:
                intersection(bad, d)
            elif w == 2:
                intersection(d, d, levels=1)
            elif w == 3:
                if isinstance(bad, str):
                    return {"nontrivial": False, "classes": ["types-skip"]}
                update_recursively(d, bad)
            elif w == 4:
                update_recursively(bad, d)
            elif w == 5:
                try:
                    update_recursively(d, {"a": 1}, 5)
                except LenaValueError:
                    return {"nontrivial": True, "classes": ["types"]}
                raise Violation("update_recursively-value-with-dict-accepted", "%r" % (case,))
        except LenaTypeError:
            return {"nontrivial": True, "classes": ["types"]}
        raise Violation("bad-argument-accepted", "%r" % (case,))
    raise AssertionError(op)


CHECKS = [
    Check("universe_pairs", judge_pair, cases=cases_pairs, exhaustive=True,
          rule="all ordered pairs of a universe of nested dicts over keys {a,b}, leaves {0,1,False,None,'','x',{},[]} "
               "(all 81 depth-1 dicts + a stratified sample of depth-2 dicts: 60 quick / 260 thorough) x level in {-1,0,1,2,3}; "
               "non-trivial = differing values on a shared key with a falsy side, or depth>=2 with partial overlap."),
    Check("universe_triples", judge_triple, cases=cases_triples, exhaustive=True,
          rule="all triples of a stratified subset: n-ary intersection = fold of meets, associativity, all permutations."),
    Check("generated_pairs", judge_pair, strategy=strat_generated, quick=6000, thorough=150000,
          rule="pairs derived from a common ancestor (keys a,b,c; depth<=3; leaves incl. lists, floats) by 0-3 point mutations."),
    Check("generated_triples", judge_triple, strategy=strat_gen_triples, quick=2000, thorough=40000,
          rule="2-4 dicts derived from a common ancestor."),
    Check("update", judge_update, strategy=strat_update, quick=5000, thorough=100000,
          rule="update_recursively (dict and string form), update_nested with key chains of length 0-3, type errors."),
]


from .. import covfuzz  # noqa
CHECKS.append(covfuzz.check(CHECKS, "harness.props.c07", "generated_pairs", quick=4000, thorough=150000))
CHECKS.append(covfuzz.check(CHECKS, "harness.props.c07", "update", quick=3000, thorough=100000))

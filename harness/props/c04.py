"""C04 - Context non-interference between Split branches and across accumulators."""
import copy
import decimal

from harness.core import Check, Violation, short
from harness.gen import mutable_ids, nested_dicts
from hypothesis import strategies as st

import lena.core
import lena.flow
import lena.math
import lena.structures
from lena.core import (Split, Sequence, FillComputeSeq, FillRequestSeq, FillRequest,
                       LenaTypeError, LenaValueError)
from lena.context import UpdateContext
from lena.flow import Count, StoreFilled, Zip
from lena.math import Sum, DSum, Mean, VarianceMeanCount, Vectorize
from lena.output import MakeFilename
from lena.structures import Histogram, SplitIntoBins
from lena.variables import Variable

PROPERTY = "C04"
LEVEL = "exploration"
RULE = ("(a) Split / Zip of 2-4 branches whose elements mutate data and context in place, driven by run (all bufsizes), "
        "fill+compute, fill+request: output must equal the assembly of every branch run alone on a private deep copy of the flow. "
        "(b) framework accumulators (bare and wrapped) under histories of fill / compute|request / mutate-what-was-yielded: "
        "identity-graph disjointness of every yielded context from filled and earlier yielded contexts, filled contexts unchanged "
        "by mutation of results, results equal to those of a never-mutated twin.")
ASSUMPTIONS = [
    "flows without pre-existing aliasing between values (each value is decoded into its own object tree)",
    "copy_buf=False, StoreFilled / GroupBy results (documented to be the filled values themselves) and mutation of the source flow by the last branch are left out",
    "Count.compute updating the stored (filled) context with its own key is not judged (only mutation of *yielded* objects is)",
]


# --------------------------------------------------------------------------
# (a) branches
# --------------------------------------------------------------------------

def _dc(v):
    if isinstance(v, tuple) and len(v) == 2 and isinstance(v[1], dict):
        return v[0], v[1]
    return v, None


class CtxSet(object):
    """context[path] = tag (in place), creating dictionaries on the way"""

    def __init__(self, path, tag):
        self.path, self.tag = path, tag

    def __call__(self, v):
        d, c = _dc(v)
        if c is None:
            return v
        cur = c
        for k in self.path[:-1]:
            if not isinstance(cur.get(k), dict):
                cur[k] = {}
            cur = cur[k]
        cur[self.path[-1]] = self.tag
        return v


class DataAppend(object):
    def __init__(self, tag):
        self.tag = tag

    def __call__(self, v):
        d, c = _dc(v)
        if isinstance(d, list):
            d.append(self.tag)
        return v


class NestedEdit(object):
    """append the tag to every list found in the context (any depth)"""

    def __init__(self, tag):
        self.tag = tag

    def _walk(self, c):
        for k in sorted(c):
            x = c[k]
            if isinstance(x, list):
                x.append(self.tag)
            elif isinstance(x, dict):
                self._walk(x)

    def __call__(self, v):
        d, c = _dc(v)
        if c is not None:
            self._walk(c)
        return v


class DelKey(object):
    """delete the first key of the context (in place)"""

    def __call__(self, v):
        d, c = _dc(v)
        if c:
            del c[sorted(c)[0]]
        return v


class Snap(object):
    """fill/compute: yields what was filled as it looked at fill time and as
    the stored objects look at compute time."""

    def __init__(self, tag):
        self.tag, self.at_fill, self.refs = tag, [], []

    def __eq__(self, other):
        # user elements may define equality by their parameters (the framework's own do)
        return type(other) is type(self) and other.tag == self.tag

    def fill(self, v):
        self.at_fill.append(copy.deepcopy(v))
        self.refs.append(v)

    def compute(self):
        yield (self.tag, "cmp", copy.deepcopy(self.at_fill), copy.deepcopy(self.refs))


class SnapReq(object):
    def __init__(self, tag):
        self.tag, self.at_fill, self.refs = tag, [], []

    def __eq__(self, other):
        return type(other) is type(self) and other.tag == self.tag

    def fill(self, v):
        self.at_fill.append(copy.deepcopy(v))
        self.refs.append(v)

    def request(self):
        # state is cleared before yielding: Zip stops at the shortest branch
        # and never resumes the other generators
        res = (self.tag, "req", copy.deepcopy(self.at_fill), copy.deepcopy(self.refs))
        self.at_fill, self.refs = [], []
        yield res


class NumSum(object):
    """lena Sum over len(data) / numeric data; context of the last value"""

    def __init__(self):
        self.el = Sum()

    def __eq__(self, other):
        return type(other) is type(self) and other.el == self.el

    def fill(self, v):
        d, c = _dc(v)
        n = len(d) if isinstance(d, list) else d
        self.el.fill((n, c) if c is not None else n)

    def compute(self):
        return self.el.compute()


def mk_mut(spec, tag, run_mode=False):
    k = spec[0]
    if k == "ctx_set":
        return CtxSet(spec[1], "t%d" % tag)
    if k == "data_append":
        return DataAppend("t%d" % tag)
    if k == "nested_edit":
        return NestedEdit("t%d" % tag)
    if k == "del_key":
        return DelKey()
    if k == "var":
        return Variable("v%d" % tag, lambda d: d, type="ty%d" % tag)
    if k == "update_context":
        return UpdateContext(spec[1], "u%d" % tag, recursively=spec[2])
    if k == "make_filename":
        return MakeFilename("f%d" % tag, overwrite=spec[1])
    if k == "count":
        # inside a fill branch Count must be cast explicitly, otherwise it
        # would be taken for the accumulator of the branch (documented)
        return Count("cnt%d" % tag) if run_mode else lena.core.FillInto(Count("cnt%d" % tag))
    if k == "id":
        return lambda v: v
    if k == "stop":
        return lena.flow.Slice(spec[1])
    raise AssertionError(spec)


def mk_term(term, tag):
    if term == "snap":
        return Snap(tag)
    if term == "store":
        return StoreFilled()
    if term == "sum":
        return NumSum()
    if term == "snapreq":
        return SnapReq(tag)
    raise AssertionError(term)


class Post(object):
    """marks the results of branch *tag*"""

    def __init__(self, tag):
        self.tag = tag

    def __call__(self, r):
        return ("B", self.tag, r)


def mk_branch_elements(spec, tag, shared=None):
    """spec = {"kind": fc|fr|seq|bare, "muts": [...], "term": ...}
    A spec marked "twin" is built from the very same stateless element objects as the other
    branches of its twin group (kept in *shared*) and a terminal that compares equal to theirs:
    the branches are then equal under == although they are different sequences with their own state."""
    tag = spec.get("tag", tag)

    def memo(key, mk):
        if shared is None or not spec.get("twin"):
            return mk()
        if key not in shared:
            shared[key] = mk()
        return shared[key]
    if spec["kind"] == "source":
        # a branch that does not read the flow: produces its own values when the first block arrives
        return [lena.core.Source(lambda: iter([("S", tag, 0), ("S", tag, 1)]))]
    if spec["kind"] == "bare":
        # a bare framework accumulator as a branch (it keeps the context of the last value by
        # reference until compute(), so it shows what happens to the value it was handed)
        return [NumSum() if spec["term"] == "sum" else Count("bare%d" % tag)]
    els = [memo(("m", tag, j), lambda m=m: mk_mut(m, tag, spec["kind"] == "seq")) for j, m in enumerate(spec["muts"])]
    if spec["kind"] in ("fc", "fr"):
        els.append(mk_term(spec["term"], tag))
    els.append(memo(("post", tag), lambda: Post(tag)))
    return els


def mk_branch(spec, tag, shared=None):
    if spec["kind"] == "nested":
        # a Split whose branches are all fill/compute sequences is a fill/compute element itself and is given
        # to the outer Split as it is (it copies for its own branches, the outer one must copy for it)
        return Split([tuple(mk_branch_elements(s, 100 + 10 * tag + j)) for j, s in enumerate(spec["inner"])])
    els = mk_branch_elements(spec, tag, shared)
    tag = spec.get("tag", tag)
    if spec["kind"] in ("bare", "source"):
        return els[0]
    if spec["kind"] == "seq" and (tag % 2 or any(m[0] == "count" for m in spec["muts"])):
        # a tuple containing Count would be taken for a fill/compute branch
        return Sequence(*els)
    return tuple(els)


def with_twin(case):
    """the branch specifications of the case; if the case asks for it and the last branch allows it,
    one earlier branch becomes a twin (equal under ==) of the last one"""
    specs = copy.deepcopy(case["branches"])
    tw = case.get("twin")
    last = specs[-1]
    if tw is None or last["kind"] not in ("fc", "fr") or any(m[0] in ("count", "stop") for m in last["muts"]):
        return specs
    t = len(specs) - 1
    specs[-1] = dict(last, twin=True, tag=t)
    specs[tw % t] = copy.deepcopy(specs[-1])
    return specs


def alone(spec, tag, blocks, driver):
    """The branch alone on private deep copies: list (per block) of result
    lists plus the final results."""
    if spec["kind"] == "nested":
        final = []
        for j, s in enumerate(spec["inner"]):
            pb, fin = alone(s, 100 + 10 * tag + j, blocks, driver)
            final.extend(fin)
        return [[] for _ in blocks], final
    els = mk_branch_elements(spec, tag)
    per_block, final = [], []
    if spec["kind"] == "source":
        vals = list(els[0]())
        per_block = [vals if bi == 0 else [] for bi in range(len(blocks))]
        final = vals if not blocks else []
    elif spec["kind"] in ("fc", "bare"):
        seq = FillComputeSeq(*els) if spec["kind"] == "fc" else els[0]
        stopped = False
        for b in blocks:
            res = []
            if not stopped:
                for v in copy.deepcopy(b):
                    try:
                        seq.fill(v)
                    except lena.core.LenaStopFill:
                        # the branch is finalised where it stops
                        stopped = True
                        res = [copy.deepcopy(r) for r in seq.compute()]
                        break
            per_block.append(res)
        if not stopped:
            final = [copy.deepcopy(r) for r in seq.compute()]
    elif spec["kind"] == "fr":
        seq = FillRequestSeq(*els, bufsize=1, reset=False, buffer_input=True)
        stopped = False
        for b in blocks:
            if stopped:
                per_block.append([])
                continue
            for v in copy.deepcopy(b):
                try:
                    seq.fill(v)
                except lena.core.LenaStopFill:
                    stopped = True
                    break
            if driver == "run":
                per_block.append([copy.deepcopy(r) for r in seq.request()])
            else:
                per_block.append([])
        if driver != "run" or not blocks:
            final = [copy.deepcopy(r) for r in seq.request()]
    else:
        seq = Sequence(*els)
        for b in blocks:
            per_block.append([copy.deepcopy(r) for r in seq.run(copy.deepcopy(b))])
        if not blocks:
            final = [copy.deepcopy(r) for r in seq.run([])]
    return per_block, final


def mkvals(js):
    out = []
    for v in js:
        d = copy.deepcopy(v["d"])
        if v.get("c") is None:
            out.append(d)
        else:
            out.append((d, copy.deepcopy(v["c"])))
    return out


mut_strat = st.one_of(
    st.builds(lambda p: ["ctx_set", p], st.lists(st.sampled_from(["a", "b", "n"]), min_size=1, max_size=2)),
    st.just(["data_append"]), st.just(["nested_edit"]), st.just(["del_key"]), st.just(["var"]),
    st.builds(lambda k, r: ["update_context", k, r], st.sampled_from(["a", "n", "n.k", "u.v"]), st.booleans()),
    st.builds(lambda o: ["make_filename", o], st.booleans()),
    st.just(["count"]), st.just(["id"]),
)

val_strat = st.fixed_dictionaries({
    "d": st.one_of(st.integers(0, 9), st.lists(st.integers(0, 3), max_size=2)),
    "c": st.one_of(st.none(), nested_dicts(keys=("a", "b", "n"), depth=2,
                                           leaf=st.one_of(st.integers(0, 3), st.lists(st.integers(0, 2), max_size=1)))),
})


@st.composite
def branch_case(draw):
    driver = draw(st.sampled_from(["run", "run", "run", "fill_compute", "fill_request", "zip_fc", "zip_fr"]))
    nb = draw(st.integers(2, 4))
    branches = []
    for i in range(nb):
        if driver == "run":
            kind = draw(st.sampled_from(["fc", "fc", "fr", "seq", "seq", "bare", "source"]))
        elif driver in ("fill_compute", "zip_fc"):
            kind = draw(st.sampled_from(["fc", "fc", "fc", "bare"]))
        else:
            kind = "fr"
        term = None
        if kind == "fc":
            term = draw(st.sampled_from(["snap", "snap", "store", "sum"]))
        elif kind == "fr":
            term = "snapreq"
        elif kind == "bare":
            term = draw(st.sampled_from(["sum", "sum", "count"]))
        muts = draw(st.lists(mut_strat, min_size=0, max_size=3)) if kind not in ("bare", "source") else []
        if kind == "fc" and driver in ("run", "fill_compute") and draw(st.integers(0, 5)) == 0:
            inner = [{"kind": "fc", "muts": draw(st.lists(mut_strat, min_size=0 if j == 0 else 1, max_size=2)),
                      "term": draw(st.sampled_from(["snap", "snap", "sum"]))} for j in range(draw(st.integers(1, 3)))]
            branches.append({"kind": "nested", "inner": inner, "muts": [], "term": None})
            continue
        if driver == "run" and kind in ("fc", "fr") and draw(st.integers(0, 2)) == 0:
            # the branch stops taking values (LenaStopFill) after k of them
            pos = draw(st.integers(0, len(muts)))
            muts = muts[:pos] + [["stop", draw(st.integers(0, 6))]] + muts[pos:]
        branches.append({"kind": kind, "muts": muts, "term": term})
    flow = draw(st.lists(val_strat, max_size=8))
    n = len(flow)
    bufsize = draw(st.one_of(st.integers(1, 4), st.sampled_from([n + 1, 1000, None])))
    return {"driver": driver, "branches": branches, "flow": flow, "bufsize": bufsize,
            "twin": draw(st.sampled_from([None, None, None, 0, 1, 2])),
            "request_after": draw(st.lists(st.integers(0, 7), max_size=2))}


def _only_data(v):
    """what Zip keeps of a branch result: the data part"""
    return lena.flow.get_data_context(v)[0]


def judge_branches(case):
    driver, specs, bufsize = case["driver"], with_twin(case), case["bufsize"]
    shared = {}
    flow = mkvals(case["flow"])
    n = len(flow)
    try:
        if driver.startswith("zip"):
            sp = Zip([mk_branch(s, i, shared) for i, s in enumerate(specs)])
        else:
            sp = Split([mk_branch(s, i, shared) for i, s in enumerate(specs)], bufsize=bufsize)
    except (LenaTypeError, LenaValueError) as e:
        raise Violation("valid-branches-rejected", "%s: %s" % (short(case), e))

    if driver == "run":
        if bufsize:
            blocks = [flow[i:i + bufsize] for i in range(0, n, bufsize)]
        else:
            blocks = [flow] if flow else []
        ref_blocks = copy.deepcopy(blocks)
        got = [copy.deepcopy(r) for r in sp.run(iter(flow))]
        alones = [alone(s, i, ref_blocks, "run") for i, s in enumerate(specs)]
        exp = []
        for bi in range(len(ref_blocks)):
            for pb, fin in alones:
                exp.extend(pb[bi])
        for pb, fin in alones:
            exp.extend(fin)
        what = "Split.run"
    elif driver in ("fill_compute", "zip_fc"):
        ref_flow = copy.deepcopy(flow)
        for v in flow:
            sp.fill(v)
        got = [copy.deepcopy(r) for r in sp.compute()]
        alones = [alone(s, i, [[v] for v in ref_flow], driver) for i, s in enumerate(specs)]
        if driver == "fill_compute":
            exp = [r for pb, fin in alones for r in fin]
        else:
            m = min(len(fin) for pb, fin in alones)
            exp = [tuple(_only_data(fin[j]) for pb, fin in alones) for j in range(m)]
            got = [tuple(_only_data(g)) for g in got]
        what = "Split.fill/compute" if driver == "fill_compute" else "Zip.fill/compute"
    else:
        # fill / request with requests at generated points
        ref_flow = copy.deepcopy(flow)
        els = [FillRequestSeq(*mk_branch_elements(s, i), bufsize=1, reset=False, buffer_input=True)
               for i, s in enumerate(specs)]
        got, exp = [], []

        def req():
            res = [copy.deepcopy(r) for r in sp.request()]
            per = [[copy.deepcopy(r) for r in e.request()] for e in els]
            if driver == "fill_request":
                got.extend(res)
                exp.extend(r for p in per for r in p)
            else:
                got.extend(tuple(_only_data(g)) for g in res)
                m = min(len(p) for p in per)
                exp.extend(tuple(_only_data(p[j]) for p in per) for j in range(m))
        for i, v in enumerate(flow):
            sp.fill(v)
            for e in els:
                e.fill(copy.deepcopy(ref_flow[i]))
            if i in case["request_after"]:
                req()
        req()
        what = "Split.fill/request" if driver == "fill_request" else "Zip.fill/request"
    if got != exp:
        # which branch differs?
        raise Violation("branch-result-differs-from-branch-alone:%s" % what.split(".")[0].lower() + ":" + driver,
                        "%s with branches %s, bufsize %r, flow %s:\n got %s\n exp %s" % (
                            what, specs, bufsize, short(case["flow"], 300), short(got, 900), short(exp, 900)))
    nmut = sum(1 for s in specs if any(m[0] not in ("id", "stop") for m in s["muts"]))
    stops = any(m[0] == "stop" and m[1] < n for s in specs[:-1] for m in s["muts"])
    with_ctx = sum(1 for v in case["flow"] if v.get("c") is not None)
    nt = nmut >= 2 and n >= 2 and with_ctx >= 1
    return {"nontrivial": nt,
            "classes": ["driver=" + driver, "mutating-branches=%d" % nmut, "flow>=2" if n >= 2 else "flow<2",
                        "mutator-not-last-branch" if any(m[0] != "id" for s in specs[:-1] for m in s["muts"]) else "only-last-mutates",
                        "non-last-branch-stops-midflow" if stops else "no-midflow-stop",
                        "twin-branches" if any(s.get("twin") for s in specs) else "no-twin"]}


# --------------------------------------------------------------------------
# (b) accumulators
# --------------------------------------------------------------------------

def _fcs(*a):
    return FillComputeSeq(*a)


ACCS = {
    # name: (factory, data kind)
    "Count": (lambda: Count(), "num"),
    "Sum": (lambda: Sum(), "num"),
    "DSum": (lambda: DSum(), "num"),
    "Mean": (lambda: Mean(), "num"),
    "MeanDSum": (lambda: Mean(sum_seq=DSum()), "num"),
    "MeanSum": (lambda: Mean(sum_seq=Sum()), "num"),
    "VMC": (lambda: VarianceMeanCount(), "num"),
    "VMCu": (lambda: VarianceMeanCount(corrected=False), "num"),
    "VMCd": (lambda: VarianceMeanCount(DSum(), DSum()), "num"),
    "Vect2": (lambda: Vectorize(Sum(), dim=2), "pair"),
    "VectList": (lambda: Vectorize([Sum(), Mean()]), "pair"),
    "VectCons": (lambda: Vectorize(Sum(), dim=2, construct=tuple), "pair"),
    "Hist": (lambda: Histogram([0, 5, 10]), "num"),
    "Hist2": (lambda: Histogram([[0, 5, 10], [0, 6, 12]]), "pair"),
    "SIB": (lambda: SplitIntoBins(FillComputeSeq(Sum()), Variable("x", lambda d: d), [0, 5, 10]), "num"),
    "SIBhist": (lambda: SplitIntoBins(FillComputeSeq(Histogram([0, 5, 10])), Variable("x", lambda d: d, latex_name="X"), [0, 5, 10]), "num"),
    "SIBmean": (lambda: SplitIntoBins(Mean(pass_on_empty=False, sum_seq=Sum()), Variable("x", lambda d: d), [0, 20]), "num"),
    "SIB(Split[Sum,Mean])": (lambda: SplitIntoBins(Split([Sum(), Mean()]), Variable("x", lambda d: d), [0, 5, 10]), "num"),
    "SIB(multi)": (lambda: SplitIntoBins(FillComputeSeq(MultiAcc(3)), Variable("x", lambda d: d), [0, 4, 8, 12]), "num"),
    "SIB2d(Sum)": (lambda: SplitIntoBins(Sum(), lena.variables.Combine(Variable("x", lambda d: d), Variable("y", lambda d: d + 1)), [[0, 5, 10], [0, 6, 12]]), "num"),
    "MeanMulti": (lambda: Mean(sum_seq=MultiAcc(2)), "num"),
    "Vect(Hist)": (lambda: Vectorize(Histogram([0, 5, 10]), dim=2), "pair"),
    "Vect(multi)": (lambda: Vectorize(MultiAcc(3), dim=2), "pair"),
    "Vect[multi,Sum]": (lambda: Vectorize([MultiAcc(2), Sum()]), "pair"),
    "Vect(Store1)": (lambda: Vectorize(StoreFilled(yield_as_a_group=False), dim=2), "pair"),
    "Graph": (lambda: lena.structures.Graph(), "point"),
    "FCSeq(Sum)": (lambda: FillComputeSeq(lambda v: v, Sum(), lambda r: r), "num"),
    "FCSeq(Var,Hist)": (lambda: FillComputeSeq(Variable("y", lambda d: d), Histogram([0, 5, 10])), "num"),
    "FCSeq(Count,Sum)": (lambda: FillComputeSeq(lena.core.FillInto(Count("c2")), Sum()), "num"),
    "Split[Sum,Count]": (lambda: Split([Sum(), Count()]), "num"),
    "Split[Hist,VMC]": (lambda: Split([Histogram([0, 5, 10]), VarianceMeanCount()]), "num"),
    "Zip[Sum,Count]": (lambda: Zip([Sum(), Count()]), "num"),
    "Zip[Hist,Mean]": (lambda: Zip([Histogram([0, 5, 10]), Mean()]), "num"),
    "FR(Sum)": (lambda: FillRequest(Sum(), reset=False, bufsize=1, buffer_input=True), "num"),
    "FR(Hist)": (lambda: FillRequest(Histogram([0, 5, 10]), reset=False, bufsize=1, buffer_input=True), "num"),
    "FR(Count)reset": (lambda: FillRequest(Count(), reset=True, bufsize=1, buffer_input=True), "num"),
    "FRSeq(Mean)": (lambda: FillRequestSeq(FillRequest(Mean(), reset=False, bufsize=1, buffer_input=True), lambda r: r, bufsize=1, buffer_input=True, reset=False), "num"),
}


class MultiAcc(object):
    """user accumulator yielding several (number, context) results"""

    def __init__(self, nres):
        self.nres, self.tot, self.ctx = nres, 0, {}

    def fill(self, v):
        d, c = lena.flow.get_data_context(v)
        self.tot += d
        self.ctx = c

    def compute(self):
        for i in range(self.nres):
            yield (self.tot + i, copy.deepcopy(self.ctx))

    def reset(self):
        self.tot, self.ctx = 0, {}


def mutate_deep(obj, tag, depth=0):
    """arbitrary in-place mutation of every mutable container reachable"""
    if isinstance(obj, dict):
        for k in list(obj):
            mutate_deep(obj[k], tag, depth + 1)
        obj["MUT%s" % tag] = [tag]
        for k in list(obj):
            if not str(k).startswith("MUT") and not isinstance(obj[k], (dict, list)):
                obj[k] = "mutated"
    elif isinstance(obj, list):
        for x in obj:
            mutate_deep(x, tag, depth + 1)
        obj.append("MUT%s" % tag)
    elif isinstance(obj, tuple):
        for x in obj:
            mutate_deep(x, tag, depth + 1)


def _ctx_of(r):
    if isinstance(r, tuple) and len(r) == 2 and isinstance(r[1], dict):
        return r[1]
    return None


def _plain(r):
    """comparable form of a result: data reduced to something with ==, context"""
    d, c = lena.flow.get_data_context(r)
    if isinstance(d, lena.structures.histogram):
        d = ("hist", copy.deepcopy(d.edges), _plain_bins(d.bins))
    elif isinstance(d, lena.structures.Graph):
        d = ("Graph", list(d.points))
    elif isinstance(d, tuple):
        d = tuple(_plain(x) for x in d)
    return (d, copy.deepcopy(c))


def _plain_bins(b):
    if isinstance(b, list):
        return [_plain_bins(x) for x in b]
    if isinstance(b, lena.structures.histogram):
        return ("hist", copy.deepcopy(b.edges), _plain_bins(b.bins))
    if isinstance(b, tuple):
        return _plain(b)
    return b


def mkdata(kind, i):
    if kind == "num":
        return i
    if kind == "pair":
        return (i, i + 1)
    return ((i,), (i + 1,))


@st.composite
def acc_case(draw):
    name = draw(st.sampled_from(sorted(ACCS)))
    ctx = nested_dicts(keys=("a", "n", "x"), depth=3,
                       leaf=st.one_of(st.integers(0, 3), st.just("s"), st.lists(st.integers(0, 2), max_size=2)))
    ops = []
    nops = draw(st.integers(2, 9))
    for _ in range(nops):
        k = draw(st.sampled_from(["fill", "fill", "fill", "out", "out", "mutate"]))
        if k == "fill":
            ops.append(["fill", draw(st.integers(0, 9)), draw(st.one_of(st.none(), ctx))])
        elif k == "out":
            ops.append(["out"])
        else:
            ops.append(["mutate", draw(st.sampled_from(["all", "last", "first"]))])
    ops.append(["out"])
    return {"acc": name, "ops": ops}


def judge_acc(case):
    name = case["acc"]
    mk, kind = ACCS[name]
    el, twin = mk(), mk()
    out_el = el.compute if hasattr(el, "compute") else el.request
    out_tw = twin.compute if hasattr(twin, "compute") else twin.request
    filled_ctx = []        # context objects handed to the element (kept alive)
    filled_snap = []       # their snapshots taken after the latest output
    yielded = []           # every result yielded so far (kept alive)
    yielded_ids = {}
    nfill = nout = nmut = 0
    nested_filled = False
    n_out_after_mut = 0
    mutated_since = False
    for op in case["ops"]:
        if op[0] == "fill":
            d = mkdata(kind, op[1])
            if op[2] is None:
                el.fill(d)
                twin.fill(copy.deepcopy(d))
            else:
                c = copy.deepcopy(op[2])
                filled_ctx.append(c)
                filled_snap.append(None)
                el.fill((d, c))
                twin.fill((copy.deepcopy(d), copy.deepcopy(op[2])))
                if any(isinstance(x, (dict, list)) for x in c.values()):
                    nested_filled = True
            nfill += 1
        elif op[0] == "out":
            try:
                res = list(out_el())
            except lena.core.LenaZeroDivisionError:
                try:
                    list(out_tw())
                except lena.core.LenaZeroDivisionError:
                    continue
                raise Violation("twin-differs:%s" % name, "element raised LenaZeroDivisionError, twin did not; %s" % short(case))
            tres = list(out_tw())
            nout += 1
            if mutated_since:
                n_out_after_mut += 1
            # behavioural: equal to the never-mutated twin
            if [_plain(r) for r in res] != [_plain(r) for r in tres]:
                raise Violation("result-corrupted-by-mutation-of-earlier-result:%s" % name,
                                "%s after ops %s:\n got  %s\n twin %s" % (name, short(case["ops"], 400), short([_plain(r) for r in res], 500),
                                                                          short([_plain(r) for r in tres], 500)))
            fids = {}
            for c in filled_ctx:
                mutable_ids(c, fids)
            for r in res:
                c = _ctx_of(r)
                if c is None:
                    continue
                ids = mutable_ids(c)
                sh = [fids[i] for i in ids if i in fids]
                if sh:
                    raise Violation("yielded-context-shares-object-with-filled-context:%s" % name,
                                    "%s: yielded context %s shares %s with the context of a filled value; ops %s" % (
                                        name, short(c), short(sh[0]), short(case["ops"], 400)))
                sh = [yielded_ids[i] for i in ids if i in yielded_ids]
                if sh:
                    raise Violation("yielded-context-shares-object-with-earlier-result:%s" % name,
                                    "%s: yielded context %s shares %s with a context yielded earlier; ops %s" % (
                                        name, short(c), short(sh[0]), short(case["ops"], 400)))
                for i, o in ids.items():
                    yielded_ids[i] = o
            yielded.append(res)
            filled_snap = [copy.deepcopy(c) for c in filled_ctx]
            mutated_since = False
        else:
            if not yielded:
                continue
            which = op[1]
            targets = yielded if which == "all" else ([yielded[-1]] if which == "last" else [yielded[0]])
            for res in targets:
                for r in res:
                    c = _ctx_of(r)
                    if c is not None:
                        mutate_deep(c, nmut)
            nmut += 1
            mutated_since = True
            if filled_snap and all(s is not None for s in filled_snap):
                for c, s in zip(filled_ctx, filled_snap):
                    if c != s:
                        raise Violation("mutating-result-changed-filled-context:%s" % name,
                                        "%s: context of a filled value became %s (was %s) after mutating a yielded context; ops %s" % (
                                            name, short(c), short(s), short(case["ops"], 400)))
    nt = nested_filled and nout >= 2 and n_out_after_mut >= 1
    return {"nontrivial": nt, "classes": ["acc=" + name, "outs=%d" % min(nout, 3), "nested-ctx" if nested_filled else "flat-or-none",
                                          "out-after-mutation" if n_out_after_mut else "no-out-after-mutation"]}


def acc_matrix(tier):
    """every accumulator x a fixed set of histories (complete for that set)"""
    ctxs = [{"n": {"k": [1]}, "i": 1}, {"a": [0], "n": {"m": {"z": [2]}}}, {"x": {"y": 1}}]
    hists = []
    F = lambda i: ["fill", i, ctxs[i % 3]]
    hists.append([F(1), F(2), ["out"], ["mutate", "all"], ["out"], F(3), ["out"]])
    hists.append([F(1), ["out"], ["mutate", "last"], F(7), ["out"], ["mutate", "first"], ["out"]])
    hists.append([F(4), F(6), F(8), ["out"], ["out"], ["mutate", "all"], F(2), ["out"]])
    hists.append([["fill", 3, None], F(5), ["out"], ["mutate", "all"], ["fill", 4, None], ["out"]])
    for name in sorted(ACCS):
        for h in hists:
            yield {"acc": name, "ops": h}


CHECKS = [
    Check("branches", judge_branches, strategy=lambda tier: branch_case(), quick=2500, thorough=60000,
          rule="2-4 branches (tuples, bare accumulators, Source branches, optionally one twin of the last branch: same stateless elements, equal under ==; 0-3 in-place mutators from Variable, UpdateContext, MakeFilename, Count, context set / delete / nested append, data append; "
               "terminal Snap / StoreFilled / Sum accumulator, fill-request snapshotter, or none for per-block sequences) x drivers run (bufsize 1..4, n+1, 1000, None), "
               "Split fill+compute, Split fill+request (requests at generated points), Zip fill+compute / fill+request; flows 0..8 of (list or scalar, nested context). "
               "Non-trivial = >=2 mutating branches, >=2 values, >=1 value with context."),
    Check("accumulators", judge_acc, strategy=lambda tier: acc_case(), quick=2500, thorough=60000,
          rule="37 accumulator configurations (Count, Sum, DSum, Mean x3, VarianceMeanCount x3, Vectorize x6 incl. over multi-result components, Histogram 1-2 dim, SplitIntoBins x3, Graph, FillComputeSeq x3, "
               "Split x2, Zip x2, FillRequest x3, FillRequestSeq) x histories of 3-10 ops fill(v, nested context) | compute/request | mutate yielded contexts (all / last / first). "
               "Non-trivial = a filled context with a nested container, >=2 outputs, >=1 output after a mutation."),
    Check("accumulator_matrix", judge_acc, cases=acc_matrix, exhaustive=True,
          rule="every accumulator configuration x 4 fixed histories (complete)."),
]


from .. import covfuzz  # noqa
CHECKS.append(covfuzz.check(CHECKS, "harness.props.c04", "branches", quick=3000, thorough=80000))

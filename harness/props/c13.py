"""C13 - Static context seen by an element depends only on what encloses and precedes it."""
import copy
import os
import re

from harness.core import Check, Violation, short
from harness import instr
from harness.props.c07 import meet, upd
from hypothesis import strategies as st

import lena.core
import lena.flow
import lena.output
from lena.core import Sequence, Source, Split, LenaKeyError, FillComputeSeq
from lena.flow import Cache
from lena.math import Sum
from lena.meta.elements import SetContext, StoreContext, UpdateContextFromStatic
from lena.output import MakeFilename, Write

PROPERTY = "C13"
LEVEL = "exploration"
RULE = ("trees of Sequence / Source / Split (depth <= 3) with SetContext (constants and formatting values), StoreContext, "
        "UpdateContextFromStatic, MakeFilename, Write, Cache and data elements at every position; oracles: reference in-order fold "
        "(Split = copy per branch, export the meet), causality relation against the truncated tree (no model), run-time probe for leaks.")
ASSUMPTIONS = [
    "every element object is built fresh for every tree (re-using one element in two trees is warned against by the test-suite itself)",
    "Split branches are tuples or explicit Sequence objects (sequences with their own static context) or all bare accumulators (transparent Split); mixtures are left out "
    "(the statement does not decide whether a bare element counts as an empty context)",
    "in trees with an unresolvable formatting key only the LenaKeyError, the consumers that precede the first such key in document order and the causality relation are judged",
    "formatting fields address leaf keys a, b, c.d, c.e; values are ints and short strings (str() of them is what a field renders)",
]

KEYS = ["a", "b", "c.d", "c.e", "output.dirname"]
FIELD_RE = re.compile(r"\{\{([^}]*)\}\}")


class Unres(Exception):
    def __init__(self, field):
        Exception.__init__(self, field)
        self.field = field


def ref_format(template, ctx):
    def rep(m):
        cur = ctx
        for k in m.group(1).split("."):
            if not isinstance(cur, dict) or k not in cur:
                raise Unres(m.group(1))
            cur = cur[k]
        return str(cur)
    return FIELD_RE.sub(rep, template)


def key_to_dict(key, val):
    d = val
    for p in reversed(key.split(".")):
        d = {p: d}
    return d


CONSUMERS = ("store", "ucfs", "mkfn", "write", "cache")


# ---- reference fold -------------------------------------------------------------------

class Model(object):
    def __init__(self):
        self.obs = {}          # path -> snapshot of the static context the consumer must have seen
        self.exports = {}      # path -> context a SetContext / nested sequence / Split exports
        self.first_unres = None   # document-order index of the first unresolvable SetContext
        self.unres_fields = []
        self.order = {}        # path -> document-order index
        self.counter = 0

    def fold(self, items, ctx, path=()):
        """thread ctx through items in document order"""
        ctx = copy.deepcopy(ctx)
        for i, it in enumerate(items):
            p = path + (i,)
            k = it[0]
            self.counter += 1
            self.order[p] = self.counter
            if k == "set":
                ctx = upd(ctx, key_to_dict(it[1], it[2]))
                self.exports[p] = copy.deepcopy(ctx)
            elif k == "setf":
                try:
                    val = ref_format(it[2], ctx)
                except Unres as e:
                    self.unres_fields.append(e.field)
                    if self.first_unres is None:
                        self.first_unres = self.counter
                    # nothing is promised about what follows; keep folding without it
                    continue
                ctx = upd(ctx, key_to_dict(it[1], val))
                self.exports[p] = copy.deepcopy(ctx)
            elif k in CONSUMERS:
                self.obs[p] = copy.deepcopy(ctx)
            elif k == "seq":
                ctx = self.fold(it[1], ctx, p)
                self.exports[p] = copy.deepcopy(ctx)
            elif k == "split":
                outs = [self.fold(br, ctx, p + (j,)) for j, br in enumerate(it[1])]
                m = outs[0]
                for o in outs[1:]:
                    m = meet(m, o)
                ctx = m
                self.exports[p] = copy.deepcopy(ctx)
            # splitbare, call, src: transparent
        return ctx


def expected_observation(it, ctx):
    """what the consumer shows when its static context is ctx; (ok, value)"""
    k = it[0]
    if k in ("store", "ucfs"):
        return True, ctx
    try:
        return True, ref_format(it[1], ctx)
    except Unres:
        # keeps whatever it had: not judged (mkfn: leaves the value alone)
        if k == "mkfn":
            return True, None
        if k == "write":
            # no name can be derived: the directory is what the element was given
            return True, it[1]
        return False, None


# ---- real objects ------------------------------------------------------------------------

PROBE = [[(0, {}), (1, {})]]


def _src():
    return iter(copy.deepcopy(PROBE[0]))


BRANCH_AS = {"tuple": tuple, "sequence": lambda els: Sequence(*els), "list": list}


def _bare_split_branch(br):
    """a branch that is one Split all of whose branches hold an accumulator: such a Split has fill and compute and can
    be given to the enclosing Split as it is (not wrapped into a sequence)"""
    return len(br) == 1 and br[0][0] == "split" and all(any(x[0] == "acc" for x in b) for b in br[0][1])


def build(items, reg, path=(), exp=None, branch_as="tuple", opts=None):
    els = []
    opts = opts or {}
    if exp is None:
        exp = {}
    for i, it in enumerate(items):
        p = path + (i,)
        k = it[0]
        if k in ("set", "setf"):
            els.append(SetContext(it[1], it[2]))
            exp[p] = els[-1]
        elif k == "store":
            e = StoreContext()
        elif k == "ucfs":
            e = UpdateContextFromStatic()
        elif k == "mkfn":
            e = MakeFilename(it[1])
        elif k == "write":
            e = Write(it[1])
        elif k == "cache":
            e = Cache("c%s_" % "-".join(map(str, p)) + it[1] + ".pkl")
        elif k == "call":
            els.append(lambda v: v)
        elif k == "src":
            els.append(_src)
        elif k == "acc":
            els.append(Sum())
        elif k == "seq":
            els.append(Sequence(*build(it[1], reg, p, exp, branch_as, opts)))
            exp[p] = els[-1]
        elif k == "split":
            brs = []
            for j, br in enumerate(it[1]):
                bels = build(br, reg, p + (j,), exp, branch_as, opts)
                if opts.get("bare_split_branches") and _bare_split_branch(br):
                    brs.append(bels[0])
                else:
                    brs.append(BRANCH_AS[branch_as](bels))
            els.append(Split(brs, copy_buf=opts.get("copy_buf", True)))
            exp[p] = els[-1]
        elif k == "splitbare":
            els.append(Split([Sum() for _ in range(it[1])]))
        else:
            raise AssertionError(it)
        if k in CONSUMERS:
            reg[p] = e
            els.append(e)
    return els


def build_root(case, reg, exp=None):
    els = build(case["items"], reg, (), exp, case.get("branch_as", "tuple"), case.get("opts"))
    if case["root"] == "source":
        return Source(*els)
    if case["root"] == "fcseq":
        return FillComputeSeq(*els)
    return Sequence(*els)


def observe(it, el, p):
    k = it[0]
    if k == "store":
        return copy.deepcopy(el.context)
    if k == "ucfs":
        return list(el.run(iter([(0, {})])))[0][1]
    if k == "mkfn":
        res = el((0, {}))
        if isinstance(res, tuple):
            return res[1].get("output", {}).get("filename")
        return None
    if k == "write":
        return el.output_directory
    if k == "cache":
        before = set(os.listdir("."))
        list(el.run(iter([1])))
        new = sorted(set(os.listdir(".")) - before)
        new = [f for f in new if not f.endswith(".tmp")]
        for f in new:
            os.remove(f)
        prefix = "c%s_" % "-".join(map(str, p))
        return [f[len(prefix):-len(".pkl")] if f.startswith(prefix) and f.endswith(".pkl") else f for f in new]


def observe_raw(it, el):
    """the mutable object a consumer hands out"""
    k = it[0]
    if k == "store":
        return el.context if False else copy.deepcopy(el.context)
    if k == "ucfs":
        return list(el.run(iter([(0, {})])))[0][1]
    if k == "mkfn":
        res = el((0, {}))
        return res[1] if isinstance(res, tuple) else {}


def scribble(d):
    """change a nested dictionary in place at every level"""
    if isinstance(d, dict):
        for v in list(d.values()):
            scribble(v)
        for k in list(d):
            if not isinstance(d[k], dict):
                d[k] = "scribbled"
        d["zz"] = "scribbled"


def node_at(items, p):
    it = None
    cur = items
    i = 0
    while i < len(p):
        it = cur[p[i]]
        if it[0] == "seq":
            cur = it[1]
            i += 1
        elif it[0] == "split" and i + 1 < len(p):
            cur = it[1][p[i + 1]]
            i += 2
        else:
            i += 1
    return it


def truncate(items, p):
    """the tree with everything after the element at path p (in its own and in
    every enclosing sequence, and every later sibling branch) removed"""
    out = []
    head = p[0]
    for i, it in enumerate(items[:head + 1]):
        if i < head or len(p) == 1:
            out.append(copy.deepcopy(it))
        elif it[0] == "seq":
            out.append(["seq", truncate(it[1], p[1:])])
        elif it[0] == "split":
            j = p[1]
            brs = [copy.deepcopy(b) for b in it[1][:j]] + [truncate(it[1][j], p[2:])]
            out.append(["split", brs])
        else:
            raise AssertionError((it, p))
    return out


# ---- run-time model (leak check) ---------------------------------------------------------------

def model_run(items, values, mdl, path=()):
    for i, it in enumerate(items):
        p = path + (i,)
        k = it[0]
        if k == "ucfs":
            values = [(d, upd(c, mdl.obs[p])) for d, c in values]
        elif k == "mkfn":
            new = []
            for d, c in values:
                if "filename" in c.get("output", {}) if isinstance(c.get("output"), dict) else False:
                    new.append((d, c))
                    continue
                full = copy.deepcopy(mdl.obs[p])
                full.update(copy.deepcopy(c))
                try:
                    res = ref_format(it[1], full)
                except Unres:
                    new.append((d, c))
                    continue
                new.append((d, upd(c, {"output": {"filename": res}})))
            values = new
        elif k == "seq":
            values = model_run(it[1], values, mdl, p)
        elif k == "split":
            outs = []
            for j, br in enumerate(it[1]):
                outs.extend(model_run(br, copy.deepcopy(values), mdl, p + (j,)))
            values = outs
    return values


def has_kind(items, kinds):
    for it in items:
        if it[0] in kinds:
            return True
        if it[0] == "seq" and has_kind(it[1], kinds):
            return True
        if it[0] == "split" and any(has_kind(b, kinds) for b in it[1]):
            return True
    return False


def consumer_paths(items, path=()):
    out = []
    for i, it in enumerate(items):
        p = path + (i,)
        if it[0] in CONSUMERS:
            out.append(p)
        elif it[0] == "seq":
            out.extend(consumer_paths(it[1], p))
        elif it[0] == "split":
            for j, b in enumerate(it[1]):
                out.extend(consumer_paths(b, p + (j,)))
    return out


# ---- judge -----------------------------------------------------------------------------------------

def judge_tree(case):
    items = case["items"]
    mdl = Model()
    final = mdl.fold(items, {})
    classes = ["root:" + case["root"]]
    with instr.Sandbox("lena-c13-"):
        reg = {}
        exporters = {}
        root = build_root(case, reg, exporters)
        # 1. the exported context / the LenaKeyError
        if mdl.first_unres is not None:
            classes.append("unresolvable-key")
            try:
                got = root._get_context()
            except LenaKeyError as e:
                msg = str(e)
                comps = set()
                for f in mdl.unres_fields:
                    comps.update(f.split("."))
                if not any(re.search(r"\b%s\b" % re.escape(c), msg) for c in comps):
                    raise Violation("lenakeyerror-does-not-name-the-key",
                                    "%s: unresolvable fields %s, message %r" % (items, mdl.unres_fields, msg))
            else:
                raise Violation("unresolvable-key-does-not-surface",
                                "%s: fields %s cannot be resolved, _get_context() returned %s" % (items, mdl.unres_fields, got))
        else:
            got = root._get_context()
            if got != final:
                raise Violation("exported-context-differs-from-fold",
                                "%s %s: _get_context() = %s, in-order fold gives %s" % (case["root"], items, got, final))
            if instr_shared(got, reg):
                raise Violation("exported-context-shares-objects", "%s" % (items,))
        # 2. every consumer saw the fold of what encloses and precedes it
        observed = {}
        for p, el in sorted(reg.items()):
            it = node_at(items, p)
            observed[p] = observe(it, el, p)
            if mdl.first_unres is not None and mdl.order[p] > mdl.first_unres:
                classes.append("consumer-after-unresolvable-key-not-judged")
                continue
            ok, exp = expected_observation(it, mdl.obs[p])
            if not ok:
                classes.append("unformattable-name-not-judged")
                continue
            if it[0] == "cache":
                exp = [exp]
            if observed[p] != exp:
                raise Violation("consumer-context-differs-from-fold:" + it[0],
                                "%s: %s at %s shows %r, the fold of what encloses and precedes it gives %r" % (
                                    items, it, p, observed[p], exp))
            classes.append("consumer:" + it[0])
        # 2b. what SetContext elements, nested sequences and Splits export is the fold up to their end,
        #     whatever follows them, and requesting it hands out a private copy
        if mdl.first_unres is None:
            for p, el in sorted(exporters.items()):
                g1 = el._get_context()
                if g1 != mdl.exports[p]:
                    raise Violation("exported-context-of-inner-element-differs-from-fold",
                                    "%s: %s at %s exports %r, the fold up to its end gives %r" % (
                                        items, node_at(items, p)[0], p, g1, mdl.exports[p]))
                scribble(g1)
                g2 = el._get_context()
                if g2 != mdl.exports[p]:
                    raise Violation("requested-context-is-not-a-private-copy",
                                    "%s: changing the dictionary returned by _get_context() of %s at %s changes what it exports" % (
                                        items, node_at(items, p)[0], p))
            classes.append("exports-checked")
        # 2c. observing again after scribbling over the first observation gives the same
        for p, el in sorted(reg.items()):
            it = node_at(items, p)
            if it[0] in ("store", "ucfs", "mkfn"):
                first = observe_raw(it, el)
                scribble(first)
                if observe(it, el, p) != observed[p]:
                    raise Violation("consumer-hands-out-its-static-context-by-reference:" + it[0],
                                    "%s: %s at %s: after changing the first result in place the next one is %r instead of %r" % (
                                        items, it, p, observe(it, el, p), observed[p]))
        # 3. causality: the same consumer in the tree truncated after it
        later_matters = False
        for p in case.get("check_paths", sorted(reg))[:4]:
            p = tuple(p)
            if p not in reg:
                continue
            titems = truncate(items, p)
            if titems == items:
                continue
            if case["root"] == "source" and not has_kind(titems, ("src",)):
                titems.append(["src"])
            if case["root"] == "fcseq" and not any(x[0] == "acc" for x in titems):
                titems.append(["acc"])
            treg = {}
            build_root({"root": case["root"], "items": titems, "branch_as": case.get("branch_as", "tuple"), "opts": case.get("opts")}, treg)
            it = node_at(items, p)
            tobs = observe(it, treg[p], p)
            if tobs != observed[p]:
                raise Violation("later-or-sibling-element-changes-what-an-earlier-element-saw:" + it[0],
                                "%s at %s shows %r in %s but %r when everything after it is removed (%s)" % (
                                    it, p, observed[p], items, tobs, titems))
            later_matters = True
        if later_matters:
            classes.append("causality-checked")
        # 4. static context reaches run-time contexts only through UpdateContextFromStatic
        if mdl.first_unres is None and not has_kind(items, ("splitbare", "acc")) and (case.get("opts") or {}).get("copy_buf", True):
            probe = [(i, copy.deepcopy(c)) for i, c in enumerate(case.get("probe", [{}, {}]))]
            PROBE[0] = probe
            try:
                if case["root"] == "source":
                    got_vals = list(root())
                else:
                    got_vals = list(root.run(iter(copy.deepcopy(probe))))
            finally:
                PROBE[0] = [(0, {}), (1, {})]
            exp_vals = model_run(items, copy.deepcopy(probe), mdl)
            if [v[1] if isinstance(v, tuple) else None for v in got_vals] != [c for d, c in exp_vals]:
                sig = "static-context-leaks-into-run-time-context"
                if has_kind(items, ("ucfs", "mkfn")):
                    sig = "run-time-context-differs-from-model"
                raise Violation(sig, "%s on the probe flow yields %s, expected contexts %s" % (
                    items, short(got_vals, 400), short([c for d, c in exp_vals], 400)))
            classes.append("run-probe")
            # 4b. the values that flowed through change no element's static context
            for p, el in sorted(reg.items()):
                it = node_at(items, p)
                if it[0] in ("store", "ucfs", "mkfn", "write"):
                    again = observe(it, el, p)
                    if again != observed[p]:
                        raise Violation("run-time-context-leaks-into-static-context:" + it[0],
                                        "%s: after the flow %s went through, %s at %s shows %r instead of %r" % (
                                            items, short(probe, 300), it, p, again, observed[p]))
            # 5. the same tree built again, now that the files of its Cache elements exist: the static context
            #    of an element does not depend on what is on disk
            if has_kind(items, ("cache",)):
                reg2, exporters2 = {}, {}
                root2 = build_root(case, reg2, exporters2)
                if root2._get_context() != final:
                    raise Violation("static-context-depends-on-existing-cache-files",
                                    "%s (Split branches given as %s): built again after a run, _get_context() = %s, fold %s" % (
                                        items, case.get("branch_as", "tuple"), root2._get_context(), final))
                for p, el in sorted(reg2.items()):
                    it = node_at(items, p)
                    if it[0] in ("store", "ucfs", "mkfn", "write"):
                        again = observe(it, el, p)
                        if again != observed[p]:
                            raise Violation("static-context-depends-on-existing-cache-files:" + it[0],
                                            "%s (Split branches given as %s): built again after a run that filled the caches, %s at %s shows %r instead of %r" % (
                                                items, case.get("branch_as", "tuple"), it, p, again, observed[p]))
                for p, el in sorted(exporters2.items()):
                    if el._get_context() != mdl.exports[p]:
                        raise Violation("static-context-depends-on-existing-cache-files:export",
                                        "%s (Split branches given as %s): built again after a run, %s at %s exports %r, fold %r" % (
                                            items, case.get("branch_as", "tuple"), node_at(items, p)[0], p, el._get_context(), mdl.exports[p]))
                classes.append("rebuilt-with-cache-files-present")
    n_cons = len(reg)
    if has_kind(items, ("acc",)):
        classes.append("with-accumulator")
    nontrivial = bool(later_matters and n_cons) or has_kind(items, ("split",)) or mdl.first_unres is not None
    return {"nontrivial": nontrivial, "classes": sorted(set(classes))}


def instr_shared(ctx, reg):
    from harness.gen import shared_mutables
    for p, el in reg.items():
        for attr in ("context", "_context"):
            other = getattr(el, attr, None)
            if isinstance(other, dict) and shared_mutables(ctx, other):
                return True
    return False


# ---- strategy ---------------------------------------------------------------------------------------

consts = st.sampled_from([1, 2, "v", "w", 7, "x_y"])
templates = st.sampled_from(["{{a}}_x", "{{b}}", "p{{c.d}}", "{{a}}{{b}}", "{{c.e}}-{{a}}", "{{c.d}}"])
name_templates = st.sampled_from(["{{a}}_{{b}}", "{{a}}", "{{a}}", "x{{a}}", "{{c.d}}", "n{{b}}", "{{b}}", "{{c.e}}{{a}}"])


def leaf():
    return st.one_of(
        st.builds(lambda k, v: ["set", k, v], st.sampled_from(KEYS + ["c"]), consts),
        st.builds(lambda k, v: ["set", k, v], st.sampled_from(KEYS), consts),
        st.builds(lambda k, v: ["set", k, v], st.sampled_from(["a", "b", "a", "c.d"]), consts),
        st.builds(lambda k, t: ["setf", k, t], st.sampled_from(KEYS), templates),
        # a dictionary as value: it is merged into what is there (like every update of the context)
        st.builds(lambda kv: ["set", kv[0], kv[1]], st.sampled_from([["c", {"d": 5}], ["c", {"e": "z"}], ["c", {"f": {"g": 1}}],
                                                                     ["output", {"dirname": "q"}], ["output", {"fileext": "e"}]])),
        st.just(["store"]), st.just(["store"]), st.just(["ucfs"]),
        st.builds(lambda t: ["mkfn", t], name_templates),
        st.builds(lambda t: ["write", t], name_templates),
        st.builds(lambda t: ["write", t], st.sampled_from(["{{r}}", "{{r}}/{{a}}", "{{a}}/{{r}}"])),
        st.builds(lambda v: ["set", "r", v], st.sampled_from(["/abs_q", "/abs_q/w", "rel"])),
        st.builds(lambda t: ["cache", t], name_templates),
        st.just(["call"]),
    )


def item_lists(depth, min_size=1, max_size=5):
    if depth <= 0:
        return st.lists(leaf(), min_size=min_size, max_size=max_size)
    sub = item_lists(depth - 1, 1, 3)
    node = st.one_of(
        leaf(), leaf(), leaf(), leaf(),
        st.builds(lambda xs: ["seq", xs], sub),
        st.builds(lambda bs: ["split", bs], st.lists(sub, min_size=1, max_size=3)),
        st.builds(lambda n: ["splitbare", n], st.integers(0, 2)),
    )
    return st.lists(node, min_size=min_size, max_size=max_size)


@st.composite
def conflict_split(draw):
    """a prefix setting some keys and a Split whose branches all override them
    with different values (so that the meet loses them, possibly all)"""
    keys = draw(st.lists(st.sampled_from(["a", "b", "c", "c.d"]), min_size=1, max_size=3, unique=True))
    if "c" in keys and "c.d" in keys:
        keys.remove("c.d")
    prefix = [["set", k, 1] for k in keys if draw(st.integers(0, 3))]
    nbr = draw(st.integers(2, 3))
    brs = []
    for j in range(nbr):
        br = [["set", k, "v%d" % j] for k in keys]
        br += draw(st.lists(leaf(), max_size=2))
        brs.append(br)
    return prefix + [["split", brs]] + draw(st.lists(leaf(), min_size=1, max_size=3))


@st.composite
def nested_override(draw):
    """a consumer of a nested key directly followed (no context element in between) by an element that
    writes into the same sub-dictionary of the context: the consumer must keep what it saw"""
    first = [["set", "c.d", draw(st.sampled_from([1, "v"]))]]
    if draw(st.booleans()):
        first.append(["set", "c.e", "w"])
    if draw(st.booleans()):
        first.append(["set", "a", 2])
    consumer = draw(st.sampled_from([["mkfn", "{{c.d}}"], ["mkfn", "{{c.e}}{{a}}"], ["mkfn", "{{c.d}}"], ["write", "{{c.d}}"],
                                     ["cache", "{{c.d}}"], ["store"], ["ucfs"]]))
    mid = [["call"]] * draw(st.integers(0, 1))
    later = draw(st.sampled_from([["set", "c.d", "x_y"], ["set", "c.e", 7], ["set", "c", {"d": 5}], ["set", "c", {"f": {"g": 1}}],
                                  ["set", "c.d", 2]]))
    if draw(st.integers(0, 2)) == 0:
        later = ["seq", [later] + draw(st.lists(leaf(), max_size=1))]
    return first + [consumer] + mid + [later] + draw(st.lists(leaf(), max_size=2))


@st.composite
def tree_case(draw):
    items = draw(item_lists(draw(st.sampled_from([1, 2, 2, 3])), 1, 6))
    if draw(st.integers(0, 7)) == 0:
        no = draw(nested_override())
        items = no if draw(st.booleans()) else items[:1] + [["seq", no]] + items[1:]
    elif draw(st.integers(0, 4)) == 0:
        cs = draw(conflict_split())
        if draw(st.booleans()):
            items = cs
        else:
            items = items[:2] + [["seq", cs]] + items[2:]
    # (a Split of accumulators inside a Split branch would turn the branch into a fill/compute sequence)
    def no_bare(xs, under_split):
        out = []
        for it in xs:
            if it[0] == "splitbare" and under_split:
                out.append(["call"])
            elif it[0] == "seq":
                out.append(["seq", no_bare(it[1], under_split)])
            elif it[0] == "split":
                out.append(["split", [no_bare(b, True) for b in it[1]]])
            else:
                out.append(it)
        return out
    items = no_bare(items, False)
    root = draw(st.sampled_from(["sequence", "sequence", "source"]))
    branch_as = draw(st.sampled_from(["tuple", "tuple", "sequence", "sequence"]))
    if draw(st.integers(0, 5)) == 0:
        # an accumulator among the elements: as the fill/compute element of a FillComputeSeq (root, or a tuple
        # branch of a Split, which is made into one), or run as an ordinary element of a Sequence
        # (before the accumulator only elements that FillInto accepts: callables and elements without data)
        pre = [it for it in draw(item_lists(0, 0, 3)) if it[0] in ("set", "setf", "store", "call", "mkfn")]
        arm = pre + [["acc"]] + no_bare(draw(item_lists(1, 1, 4)), True)
        how = draw(st.sampled_from(["root", "branch", "branch", "inline"]))
        if how == "root":
            items, root = arm, "fcseq"
        elif how == "branch":
            k = draw(st.integers(0, min(2, len(items))))
            others = [no_bare(draw(item_lists(0, 1, 2)), True) for _ in range(draw(st.integers(0, 1)))]
            brs = others + [arm] if draw(st.booleans()) else [arm] + others
            items = items[:k] + [["split", brs]] + items[k:]
            branch_as = "tuple"
        else:
            k = draw(st.integers(0, min(2, len(items))))
            items = items[:k] + arm + items[k:]
    opts = {}
    if draw(st.integers(0, 3)) == 0:
        opts["copy_buf"] = False
    if root != "fcseq" and draw(st.integers(0, 7)) == 0:
        # a Split given to a Split as it is: inner branches that override a key differently, a sibling that keeps it
        key = draw(st.sampled_from(["a", "b", "c.d"]))
        fillable = lambda xs: [x for x in xs if x[0] in ("set", "setf", "store", "call", "mkfn")]   # noqa
        inner = [[["set", key, "v%d" % j]] + fillable(draw(st.lists(leaf(), max_size=1))) + [["acc"]] + draw(st.lists(leaf(), max_size=1))
                 for j in range(draw(st.integers(1, 3)))]
        sibling = fillable(draw(st.lists(leaf(), max_size=2))) + [["acc"]]
        brs = [[["split", inner]], sibling] if draw(st.booleans()) else [sibling, [["split", inner]]]
        k = draw(st.integers(0, min(2, len(items))))
        items = items[:k] + [["set", key, 1]] * draw(st.integers(0, 1)) + [["split", brs]] + draw(st.lists(leaf(), min_size=1, max_size=2)) + items[k:]
        opts["bare_split_branches"] = True
        branch_as = "tuple"
    if root == "source":
        # the generating element is the first data element (only context elements may precede it)
        pos = 0
        while pos < len(items) and items[pos][0] in ("set", "setf", "store") and draw(st.booleans()):
            pos += 1
        items = items[:pos] + [["src"]] + items[pos:]
    paths = consumer_paths(items)
    chosen = []
    if paths:
        chosen = draw(st.lists(st.sampled_from(paths), max_size=4, unique=True))
    # run-time contexts of the probe flow: flat keys that the name templates use, on some values only
    rt = st.dictionaries(st.sampled_from(["a", "b", "z"]), st.sampled_from([3, "r", "s"]), max_size=2)
    probe = draw(st.one_of(st.just([{}, {}]), st.lists(rt, min_size=2, max_size=3)))
    return {"root": root, "items": items, "check_paths": [list(p) for p in chosen],
            "branch_as": branch_as, "probe": probe, "opts": opts}


CHECKS = [
    Check("trees", judge_tree, strategy=lambda tier: tree_case(), quick=2500, thorough=80000,
          rule="trees of depth <= 3 with 1-6 nodes per level; every consumer's observation (StoreContext.context, the context UpdateContextFromStatic injects, the name MakeFilename makes for a probe value, "
               "Write.output_directory, the file a Cache creates) equals the reference fold of what encloses and precedes it and equals its observation in the tree truncated after it; exported context / LenaKeyError naming a missing key; "
               "probe flow through the tree shows static keys only where UpdateContextFromStatic / MakeFilename put them. Non-trivial = a consumer followed by later elements, a Split, or an unresolvable key."),
]


from .. import covfuzz  # noqa
CHECKS.append(covfuzz.check(CHECKS, "harness.props.c13", "trees", quick=800, thorough=80000))

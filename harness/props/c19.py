"""C19 - Output files always match the current data and nothing unchanged is redone."""
import copy
import os
import re
import stat

from harness.core import Check, Violation, short
from harness import instr
from harness.props.c10 import audit_on, audit_off
from hypothesis import strategies as st

import lena.context
import lena.flow
from lena.core import Sequence
from lena.flow import MapGroup, group_plots
from lena.output import ToCSV, MakeFilename, Write, RenderLaTeX, LaTeXToPDF, PDFToPNG
from lena.structures import histogram

PROPERTY = "C19"
LEVEL = "exploration"
RULE = ("histories of 1-4 runs of the pipeline ToCSV, MakeFilename, Write, RenderLaTeX, Write, LaTeXToPDF, PDFToPNG in a sandbox directory, with data / template changes and deleted files between runs "
        "and all Write / converter settings; oracle: a reference model of the documented rules predicting every file's content, which files are written, which converters run and the changed flags; "
        "MakeFilename op sequences against a model of the naming rules; output.changed of groups.")
ASSUMPTIONS = [
    "converters are content-carrying shell stubs: the pdf stub writes the tex text followed by the csv text, the png stub copies the pdf; both append to an invocation log",
    "the pipeline is built afresh for every run, as a new program execution would, or (a third of the histories) one pipeline object is used for all runs",
    "which files Write opens for writing is observed with an audit hook; converters are observed through the invocation log",
    "real pdflatex / pdftoppm, failing converters and data objects with their own write method are left out",
]

EDGES = [0, 1, 2, 3]


# how plots are named (the file names derive from it): names that end in characters of ".pdf" / ".tex" / ".csv" too
NAME_STYLES = {"p": "p%d", "speed": "n%dspeed", "cdf": "n%dcdf", "_pdf": "n%d_pdf", "tex": "n%dtex", "csv": "v%dcsv", "png": "g%dpng", "subdir": "d/n%dq", "subdir2": "t%d/n%dx"}
_STYLE = ["p"]


def pname(plot):
    # (a name may hold a relative path, as MakeFilename("{{variable.type}}/{{variable.name}}") makes them)
    st_ = NAME_STYLES[_STYLE[0]]
    return st_ % ((plot,) * st_.count("%d"))


def plot_of(basename):
    """the plot number of a file name made by pname"""
    m = re.match(r"[a-z]+(\d+)", basename)
    return int(m.group(1)) if m else None


def hist_for(plot, version):
    return histogram(list(EDGES), [version + plot, 2 * version + 1, plot])


def plot_context(plot, dup=None):
    ctx = {"name": pname(plot)}
    if dup is not None:
        # a per-plot option of ToCSV given in the context
        ctx["output"] = {"duplicate_last_bin": dup}
    return ctx


def csv_text(plot, version, dup=None):
    """what ToCSV alone makes of the current data (of this plot alone, with this plot's options)"""
    res = list(ToCSV().run(iter([(hist_for(plot, version), plot_context(plot, dup))])))
    return res[0][0]


def tex_text(tver, plot):
    return "TEMPLATE v%d %s %s" % (tver, pname(plot), os.path.join("out", "%s.csv" % pname(plot)))


def write_template(tver):
    with open("templates/plot.tex", "w") as f:
        f.write("TEMPLATE v%d \\VAR{ name } \\VAR{ output.filepath }\n" % tver)


def setup_sandbox():
    os.makedirs("templates")
    os.makedirs("bin")
    log = os.path.abspath("invocations.log")
    with open("bin/pdftoppm", "w") as f:
        f.write('#!/bin/sh\ncp "$1" "$2.png"\necho "png $1" >> "%s"\n' % log)
    os.chmod("bin/pdftoppm", stat.S_IRWXU)
    return log


def make_stub_cmd(log):
    def create_command(texfile_name, outfilename, output_directory, context):
        return ["sh", "-c", 'cat "$0" "${0%.tex}.csv" > "$1"; echo "pdf $0" >> "$2"', texfile_name, outfilename, log]
    return create_command


class Tap(object):
    def __init__(self, name, store):
        self.name, self.store = name, store

    def run(self, flow):
        for v in flow:
            self.store.setdefault(self.name, []).append(copy.deepcopy(v))
            yield v


WRITE_KW = {"default": {}, "overwrite": {"overwrite": True}, "existing_unchanged": {"existing_unchanged": True}}


def build_pipeline(settings, log, taps):
    return Sequence(
        ToCSV(), MakeFilename("{{name}}"),
        Write("out", verbose=False, **WRITE_KW[settings["w1"]]), Tap("csv", taps),
        RenderLaTeX("plot.tex", template_dir="templates"),
        Write("out", verbose=False, **WRITE_KW[settings["w2"]]), Tap("tex", taps),
        LaTeXToPDF(verbose=0, create_command=make_stub_cmd(log), overwrite=settings["pdf_overwrite"]), Tap("pdf", taps),
        PDFToPNG(verbose=False, overwrite=settings["png_overwrite"]), Tap("png", taps),
    )


# ---- reference model of the documented rules -------------------------------------------

def model_write(files, path, text, mode, changed, created):
    """-> (changed flag after, wrote?)"""
    if path in files:
        if mode == "existing_unchanged":
            return changed, False
        if mode == "overwrite":
            files[path] = text
            return True, True
        if files[path] != text:
            files[path] = text
            return True, True
        return changed, False
    files[path] = text
    created.append(path)
    # a file that was missing has been made: what is rendered from it must be redone
    return True, True


def model_run(files, plots, versions, tver, settings, dups=None):
    """files: path -> content (updated in place).
    -> written paths (by Write), invocation log, flags[plot][stage], created[plot]"""
    written, log, flags, created_by = [], [], {}, {}
    for plot, ver in zip(plots, versions):
        base = os.path.join("out", pname(plot))
        created = []
        fl = {}
        ch, wrote = model_write(files, base + ".csv", csv_text(plot, ver, (dups or {}).get(str(plot))), settings["w1"], False, created)
        if wrote:
            written.append(base + ".csv")
        fl["csv"] = ch
        ch, wrote = model_write(files, base + ".tex", tex_text(tver, plot), settings["w2"], ch, created)
        if wrote:
            written.append(base + ".tex")
        fl["tex"] = ch
        if not settings["pdf_overwrite"] and (base + ".pdf") in files and not ch:
            ch = False
        else:
            files[base + ".pdf"] = files[base + ".tex"] + files[base + ".csv"]
            log.append("pdf " + base + ".tex")
            ch = True
        fl["pdf"] = ch
        if (base + ".png") not in files or settings["png_overwrite"] or ch:
            files[base + ".png"] = files[base + ".pdf"]
            log.append("png " + base + ".pdf")
            ch = True
        else:
            ch = False
        fl["png"] = ch
        flags[plot] = fl
        created_by[plot] = created
    return written, log, flags, created_by


# ---- judge ---------------------------------------------------------------------------------------

def read_tree():
    snap = {}
    for root, dirs, fs in os.walk("out"):
        for f in fs:
            p = os.path.join(root, f)
            with open(p) as fh:
                snap[p] = fh.read()
    return snap


def judge_history(case):
    _STYLE[0] = case.get("names", "p")
    try:
        return _judge_history(case)
    finally:
        _STYLE[0] = "p"


def _judge_history(case):
    plots, settings, runs = case["plots"], case["settings"], case["runs"]
    classes = ["w1:" + settings["w1"], "w2:" + settings["w2"], "names:" + case.get("names", "p")]
    staleness_possible = False
    with instr.Sandbox("lena-c19-"):
        log_path = setup_sandbox()
        old_path = os.environ.get("PATH", "")
        os.environ["PATH"] = os.path.join(os.getcwd(), "bin") + os.pathsep + old_path
        try:
            model_files = {}
            pending = []
            pipeline, shared_taps = None, {}
            for r, run in enumerate(runs):
                # between runs: deleted files
                for plot, kind in run.get("delete", []):
                    p = os.path.join("out", "%s.%s" % (pname(plot), kind))
                    if os.path.exists(p):
                        os.remove(p)
                        model_files.pop(p, None)
                        staleness_possible = True
                if r and (run["versions"] != runs[r - 1]["versions"] or run["template"] != runs[r - 1]["template"]):
                    staleness_possible = True
                write_template(run["template"])
                # (the template's modification time strictly increases from run to run, whatever the clock's granularity)
                t_ns = 1500000000 * 10 ** 9 + r * 10 ** 10
                os.utime("templates/plot.tex", ns=(t_ns, t_ns))
                if os.path.exists(log_path):
                    os.remove(log_path)
                # backdate what exists, so that anything written now is recognisably newer
                before = {}
                for p in sorted(read_tree()):
                    st_ = os.stat(p)
                    os.utime(p, ns=(st_.st_atime_ns - 10 ** 10, st_.st_mtime_ns - 10 ** 10))
                    st_ = os.stat(p)
                    before[p] = (st_.st_mtime_ns, st_.st_ino)
                exp_files = dict(model_files)
                written, exp_log, exp_flags, created_by = model_run(exp_files, plots, run["versions"], run["template"], settings, case.get("dups"))
                taps = {}
                flow = [(hist_for(p, v), plot_context(p, (case.get("dups") or {}).get(str(p)))) for p, v in zip(plots, run["versions"])]
                audit_on()
                try:
                    if case.get("reuse"):
                        # one pipeline object for all runs of the history (a long-lived process)
                        if pipeline is None:
                            pipeline = build_pipeline(settings, log_path, shared_taps)
                        shared_taps.clear()
                        out = list(pipeline.run(iter(flow)))
                        taps.update(shared_taps)
                    else:
                        out = list(build_pipeline(settings, log_path, taps).run(iter(flow)))
                finally:
                    events = audit_off()
                got_files = read_tree()
                got_log = []
                if os.path.exists(log_path):
                    with open(log_path) as fh:
                        got_log = [ln.strip() for ln in fh if ln.strip()]
                descr = "plots %s settings %s, run %d of history %s" % (plots, settings, r + 1, runs[:r + 1])

                def classify(default_sig, plot=None):
                    """the recorded defect: Write makes a missing file without setting output.changed"""
                    for pl in ([plot] if plot is not None else plots):
                        for path in created_by.get(pl, []):
                            kind = path.rsplit(".", 1)[1]
                            tapped = [v for v in taps.get(kind, []) if v[0] == path]
                            flag = tapped[0][1].get("output", {}).get("changed") if tapped else None
                            # the recorded mechanism: the converter is *told* that nothing changed (output.changed
                            # False on the tex value it receives). When the flag is absent there, LaTeXToPDF decides
                            # by modification times and the unchanged tree redoes the pdf: then a stale artefact is
                            # another defect and keeps its own signature.
                            tex_path = os.path.join("out", "%s.tex" % pname(pl))
                            tex_vals = [v for v in taps.get("tex", []) if v[0] == tex_path]
                            tex_flag = tex_vals[0][1].get("output", {}).get("changed") if tex_vals else None
                            if not flag and r > 0 and tex_flag is False:
                                return "derived-artefacts-not-redone-after-write-recreated-missing-%s" % kind
                    return default_sig

                def recorded(v):
                    """a recorded defect does not end the history: the directory is put into the state
                    the rules give, the finding is remembered and the search goes on behind it"""
                    if not v.sig.startswith("derived-artefacts-not-redone-after-write-recreated-missing-"):
                        raise v
                    pending.append(v)
                    for pth, txt in exp_files.items():
                        with open(pth, "w") as fh:
                            fh.write(txt)
                    for pth in set(read_tree()) - set(exp_files):
                        os.remove(pth)

                # 1. files and their contents
                if got_files != exp_files:
                    diff = sorted(set(got_files) ^ set(exp_files)) or sorted(p for p in got_files if got_files[p] != exp_files.get(p))
                    p0 = diff[0]
                    plot = plot_of(os.path.basename(p0))
                    sig = "missing-file" if p0 not in got_files else "unexpected-file" if p0 not in exp_files else "stale-or-wrong-content:" + p0.rsplit(".", 1)[1]
                    recorded(Violation(classify(sig, plot), "%s: %s is %r, from the current data and template it must be %r" % (
                        descr, p0, got_files.get(p0), exp_files.get(p0))))
                    model_files = exp_files
                    continue
                # 2. every yielded value names an existing file with the current content
                for stage, ext in (("csv", "csv"), ("tex", "tex"), ("pdf", "pdf"), ("png", "png")):
                    names = sorted(v[0] for v in taps.get(stage, []))
                    want = sorted(os.path.join("out", "%s.%s" % (pname(p), ext)) for p in plots)
                    if names != want:
                        raise Violation("yielded-file-names-differ", "%s: after %s the values name %s, expected %s" % (descr, stage, names, want))
                if sorted(v[0] for v in out) != sorted(os.path.join("out", "%s.png" % pname(p)) for p in plots):
                    raise Violation("yielded-file-names-differ", "%s: final values %s" % (descr, short(out)))
                # 3. nothing unchanged is redone: converters, and files opened for writing by Write
                if sorted(got_log) != sorted(exp_log):
                    odd = sorted(set(got_log) ^ set(exp_log)) or sorted(got_log)
                    plot = plot_of(os.path.basename(odd[0].split()[1]))
                    recorded(Violation(classify("converter-invocations-differ", plot), "%s: converters ran %s, the rules give %s" % (descr, sorted(got_log), sorted(exp_log))))
                    model_files = exp_files
                    continue
                opened = sorted(os.path.relpath(p) for k, p in events if k == "open-for-writing" and os.path.relpath(p).startswith("out" + os.sep))
                if opened != sorted(written):
                    raise Violation("write-rewrites-or-skips-a-file", "%s: Write opened %s for writing, the rules give %s" % (descr, opened, sorted(written)))
                for p, meta in before.items():
                    if p in got_files and p not in written and not any(ln.endswith(p.rsplit(".", 1)[0] + (".tex" if p.endswith(".pdf") else ".pdf")) for ln in exp_log if p.endswith((".pdf", ".png"))):
                        st_ = os.stat(p)
                        if (st_.st_mtime_ns, st_.st_ino) != meta:
                            raise Violation("unchanged-file-was-rewritten", "%s: %s" % (descr, p))
                # 4. output.changed at every stage
                for plot in plots:
                    if created_by[plot]:
                        classes.append("write-created-a-file(flags-not-judged)")
                        continue
                    for stage in ("csv", "tex", "pdf", "png"):
                        path = os.path.join("out", "%s.%s" % (pname(plot), stage))
                        tapped = [v for v in taps[stage] if v[0] == path]
                        flag = tapped[0][1].get("output", {}).get("changed")
                        if bool(flag) != exp_flags[plot][stage]:
                            raise Violation("output.changed-wrong-after-" + stage,
                                            "%s: context.output.changed after the %s stage of p%d is %r, expected %r" % (
                                                descr, stage, plot, flag, exp_flags[plot][stage]))
                model_files = exp_files
                if not exp_log and not written:
                    classes.append("idle-run")
            if pending:
                raise pending[0]
        finally:
            os.environ["PATH"] = old_path
    nontrivial = len(runs) >= 2 and staleness_possible
    classes.append("runs:%d" % len(runs))
    return {"nontrivial": nontrivial, "classes": sorted(set(classes))}


@st.composite
def history_case(draw):
    nplots = draw(st.integers(1, 3))
    plots = list(range(1, nplots + 1))
    settings = {"w1": draw(st.sampled_from(["default", "default", "default", "overwrite", "existing_unchanged"])),
                "w2": draw(st.sampled_from(["default", "default", "default", "overwrite", "existing_unchanged"])),
                "pdf_overwrite": draw(st.sampled_from([False, False, False, True])),
                "png_overwrite": draw(st.sampled_from([False, False, False, True]))}
    runs = []
    versions = [draw(st.integers(0, 2)) for _ in plots]
    tver = 1
    for r in range(draw(st.sampled_from([1, 2, 2, 3, 3, 4]))):
        run = {}
        if r:
            versions = [v if draw(st.integers(0, 2)) else v + 1 + draw(st.integers(0, 1)) for v in versions]
            if draw(st.integers(0, 3)) == 0:
                tver += 1
            dels = []
            for p in plots:
                for kind in ("csv", "tex", "pdf", "png"):
                    if draw(st.integers(0, 5)) == 0:
                        dels.append([p, kind])
            run["delete"] = dels
        run["versions"] = list(versions)
        run["template"] = tver
        runs.append(run)
    dups = {}
    for p in plots:
        d = draw(st.sampled_from([None, None, None, False, True]))
        if d is not None:
            dups[str(p)] = d
    return {"plots": plots, "settings": settings, "runs": runs, "reuse": draw(st.sampled_from([False, False, True])), "dups": dups,
            "names": draw(st.sampled_from(["p", "p"] + sorted(NAME_STYLES)))}


def deletion_cases(tier):
    """run; delete any subset of one plot's four files and change (or keep) data / template; run (enumerated)"""
    kinds = ["csv", "tex", "pdf", "png"]
    settings = {"w1": "default", "w2": "default", "pdf_overwrite": False, "png_overwrite": False}
    for mask in range(16):
        dels = [[1, k] for i, k in enumerate(kinds) if mask >> i & 1]
        for dv in (0, 1):
            for dt in (0, 1):
                yield {"plots": [1, 2], "settings": settings, "runs": [
                    {"versions": [0, 0], "template": 1},
                    {"versions": [dv, 0], "template": 1 + dt, "delete": dels},
                    {"versions": [dv, 0], "template": 1 + dt, "delete": []}]}


# ---- MakeFilename ------------------------------------------------------------------------------------

MISSING = object()


def _get(c, path):
    cur = c
    for k in path.split("."):
        if not isinstance(cur, dict) or k not in cur:
            return MISSING
        cur = cur[k]
    return cur


def _fmt(tpl, ctx):
    out = []
    for part in tpl:
        if isinstance(part, list):
            v = _get(ctx, part[1])
            if v is MISSING:
                return MISSING
            out.append(str(v))
        else:
            out.append(part)
    return "".join(out)


def _tpl_str(tpl):
    return "".join("{{%s}}" % p[1] if isinstance(p, list) else p for p in tpl)


def mf_model(ops, ctx):
    ctx = copy.deepcopy(ctx)
    for op in ops:
        ow = op["overwrite"]
        for key in ("prefix", "suffix", "filename", "dirname", "fileext"):
            if key not in op:
                continue
            out = ctx.get("output") if isinstance(ctx.get("output"), dict) else None
            if key in ("filename", "dirname", "fileext"):
                # an existing name (even an empty one) is never replaced without overwrite
                if out is not None and key in out and not ow:
                    continue
            res = _fmt(op[key], ctx)
            if res is MISSING:
                continue
            if key in ("prefix", "suffix"):
                existing = out.get(key) if out else None
                if existing and not ow:
                    res = res + existing if key == "prefix" else existing + res
            elif key == "filename":
                pre = (out or {}).get("prefix", "")
                suf = (out or {}).get("suffix", "")
                res = pre + res + suf
                if pre:
                    del out["prefix"]
                if suf:
                    del out["suffix"]
            if not isinstance(ctx.get("output"), dict):
                ctx["output"] = {}
            ctx["output"][key] = res
    return ctx


tpl_part = st.sampled_from(["p", "q_", "r", ["f", "a"], ["f", "b.c"], ["f", "zz"]])
tpls = st.lists(tpl_part, min_size=1, max_size=3)


@st.composite
def mf_case(draw):
    ops = []
    for _ in range(draw(st.integers(1, 5))):
        op = {"overwrite": draw(st.integers(0, 3)) == 0}
        if draw(st.booleans()):
            op["filename"] = draw(tpls)
        else:
            if draw(st.integers(0, 4)) < 3:
                op["prefix"] = draw(tpls)
            if draw(st.integers(0, 4)) < 3:
                op["suffix"] = draw(tpls)
        if draw(st.integers(0, 2)) == 0:
            op["dirname"] = draw(tpls)
        if draw(st.integers(0, 2)) == 0:
            op["fileext"] = draw(tpls)
        if len(op) == 1:
            op["filename"] = draw(tpls)
        ops.append(op)
    ctx = {"a": draw(st.sampled_from([1, "A"])), "b": {"c": "C"}}
    if draw(st.integers(0, 2)) == 0:
        ctx["output"] = draw(st.dictionaries(st.sampled_from(["filename", "prefix", "suffix", "dirname", "fileext"]),
                                             st.sampled_from(["E", "", "x.y"]), min_size=1, max_size=3))
    return {"ops": ops, "ctx": ctx, "bare": draw(st.integers(0, 5)) == 0}


def judge_mf(case):
    ops, ctx = case["ops"], case["ctx"]
    exp = mf_model(ops, ctx)
    v = (0, copy.deepcopy(ctx))
    for op in ops:
        kw = dict((k, _tpl_str(op[k])) for k in op if k != "overwrite")
        v = MakeFilename(overwrite=op["overwrite"], **kw)(v)
    got = v[1]
    if got != exp:
        sig = "makefilename-differs-from-naming-rules"
        for key in ("filename", "dirname", "fileext"):
            before = ctx.get("output", {}).get(key, MISSING)
            if before is not MISSING and not any(op["overwrite"] for op in ops) and got.get("output", {}).get(key) != before:
                sig = "makefilename-replaces-an-existing-name-without-overwrite"
        raise Violation(sig, "ops %s on context %s give %s, the documented rules give %s" % (ops, ctx, got, exp))
    nprefix = sum(1 for op in ops if "prefix" in op or "suffix" in op)
    return {"nontrivial": len(ops) >= 2 and (nprefix >= 1 or "output" in ctx),
            "classes": ["ops:%d" % len(ops), "existing-output" if "output" in ctx else "no-output",
                        "prefix/suffix" if nprefix else "names-only"]}


# ---- output.changed of groups ---------------------------------------------------------------------------

CH = [None, True, False]


def group_cases(tier):
    import itertools
    for n in (1, 2, 3):
        for before in itertools.product(CH, repeat=n):
            for after in itertools.product(["keep", True, False], repeat=n):
                # (an element that lowers a flag which is already true would itself break
                # 'stays true downstream': not part of the domain)
                if any(b is True and a is False for b, a in zip(before, after)):
                    continue
                yield {"before": list(before), "after": list(after)}


def judge_group(case):
    before, after = case["before"], case["after"]
    # the group context is the one group_plots makes
    outer = any(bool(ch) for ch in before)

    def ctx_with(ch, i):
        c = {"i": i, "common": 1}
        if ch is not None:
            c["output"] = {"changed": ch}
        return c
    members = [(i, ctx_with(ch, i)) for i, ch in enumerate(before)]
    # group_plots: changed iff any member changed
    data, gctx = group_plots(copy.deepcopy(members))
    want = any(bool(ch) for ch in before)
    if lena.context.get_recursively(gctx, "output.changed", None) is not want:
        raise Violation("group_plots-changed-is-not-any-of-its-members", "%s -> %s" % (before, gctx))

    def step(v):
        d, c = v
        a = after[c["i"]]
        if a != "keep":
            c.setdefault("output", {})["changed"] = a
        return (d, c)
    res = list(MapGroup(step).run(iter([(data, gctx)])))
    final = []
    for b, a in zip(before, after):
        final.append(b if a == "keep" else a)
    flags = final + [outer]
    exp = True if any(f for f in flags) else (False if any(f is False for f in flags) else None)
    got = lena.context.get_recursively(res[0][1], "output.changed", None)
    if got is not exp and got != exp:
        raise Violation("mapgroup-does-not-combine-output.changed", "members before %s after %s (group made by group_plots: changed %s): changed = %r, expected %r" % (before, after, outer, got, exp))
    return {"nontrivial": len(before) >= 2 and any(a != "keep" for a in after), "classes": ["n:%d" % len(before)]}


CHECKS = [
    Check("histories", judge_history, strategy=lambda tier: history_case(), quick=600, thorough=12000,
          rule="1-3 plots x settings of both Write elements (default / overwrite / existing_unchanged) and of the converters x histories of 1-4 runs; before every later run each plot's data and the template are kept or changed and any of the csv / tex / pdf / png files may be deleted. "
               "After each run: every file equals what the reference model derives from the current data, template and previous directory state; yielded names; converter invocations; files Write opened for writing; untouched files keep (mtime, inode); output.changed at all four stages. "
               "Non-trivial = >= 2 runs with a deletion or a data / template change."),
    Check("deletion_subsets", judge_history, cases=deletion_cases, exhaustive=True,
          rule="complete enumeration: run, delete each of the 16 subsets of one plot's four files while its data and/or the template change or stay, run again, then an idle third run (default settings, a second untouched plot)."),
    Check("make_filename", judge_mf, strategy=lambda tier: mf_case(), quick=3000, thorough=100000,
          rule="sequences of 1-5 MakeFilename elements (filename or prefix/suffix, dirname, fileext templates with resolvable and unresolvable fields, overwrite) on a value with or without existing output names (also empty ones): "
               "context equals a model of the documented rules. Non-trivial = >= 2 elements with a prefix/suffix or existing names."),
    Check("group_changed", judge_group, cases=group_cases, exhaustive=True,
          rule="complete enumeration: groups of 1-3 members with output.changed absent/True/False, grouped by group_plots, then kept or set (never lowered from True) by a sequence mapped with MapGroup: the group's flag is 'any changed'."),
]


from .. import covfuzz  # noqa
CHECKS.append(covfuzz.check(CHECKS, "harness.props.c19", "make_filename", quick=3000, thorough=100000))

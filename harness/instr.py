"""Instrumentation owned by the harness: step watchdog, counting sources,
weak-reference liveness, file-system sandbox."""
import gc
import os
import shutil
import sys
import tempfile
import types
import weakref


class StepBudgetExceeded(Exception):
    """more LINE events inside the watched modules than the budget allows"""


class Watchdog(object):
    """Deterministic replacement for a wall-clock timeout: counts LINE events
    (sys.monitoring, Python 3.12) in the code objects of the given modules
    and raises StepBudgetExceeded inside the running frame when the budget
    of one ``with`` block is exceeded."""

    TOOL = sys.monitoring.DEBUGGER_ID

    def __init__(self, modules, budget):
        self.budget = budget
        self.n = 0
        self.codes = []
        seen = set()

        def collect(co):
            if id(co) in seen:
                return
            seen.add(id(co))
            self.codes.append(co)
            for c in co.co_consts:
                if isinstance(c, types.CodeType):
                    collect(c)

        for module in modules:
            for v in list(vars(module).values()):
                if isinstance(v, type) and v.__module__ == module.__name__:
                    for m in vars(v).values():
                        f = getattr(m, "__func__", m)
                        co = getattr(f, "__code__", None)
                        if co is not None:
                            collect(co)
                elif isinstance(v, types.FunctionType) and v.__module__ == module.__name__:
                    collect(v.__code__)

    def __enter__(self):
        mon = sys.monitoring
        self.n = 0
        if mon.get_tool(self.TOOL) is not None:
            mon.free_tool_id(self.TOOL)
        mon.use_tool_id(self.TOOL, "verif-watchdog")

        def cb(code, line):
            self.n += 1
            if self.n > self.budget:
                raise StepBudgetExceeded(self.n)

        mon.register_callback(self.TOOL, mon.events.LINE, cb)
        for co in self.codes:
            mon.set_local_events(self.TOOL, co, mon.events.LINE)
        return self

    def __exit__(self, *a):
        mon = sys.monitoring
        for co in self.codes:
            mon.set_local_events(self.TOOL, co, 0)
        mon.register_callback(self.TOOL, mon.events.LINE, None)
        mon.free_tool_id(self.TOOL)
        return False


class V(object):
    """weak-referenceable, deep-copyable value with an index"""
    __slots__ = ("i", "__weakref__")

    def __init__(self, i):
        self.i = i

    def __repr__(self):
        return "V(%d)" % self.i

    def __eq__(self, other):
        return isinstance(other, V) and other.i == self.i

    def __hash__(self):
        return hash(("V", self.i))


class Liveness(object):
    """weak references to input values; live() after gc.collect()"""

    def __init__(self):
        self.refs = []

    def make(self, i):
        v = V(i)
        self.refs.append(weakref.ref(v))
        return v

    def live(self):
        gc.collect()
        return sum(1 for r in self.refs if r() is not None)


class Sandbox(object):
    """a private temporary directory made the current directory"""

    def __init__(self, prefix="lena-verif-"):
        self.prefix = prefix

    def __enter__(self):
        self.old = os.getcwd()
        self.dir = tempfile.mkdtemp(prefix=self.prefix)
        os.chdir(self.dir)
        return self

    def __exit__(self, *a):
        os.chdir(self.old)
        shutil.rmtree(self.dir, ignore_errors=True)
        return False

    def snapshot(self, with_meta=True):
        snap = {}
        for root, dirs, files in os.walk(self.dir):
            for d in dirs:
                p = os.path.join(root, d)
                snap[os.path.relpath(p, self.dir) + "/"] = None
            for f in files:
                p = os.path.join(root, f)
                st = os.stat(p)
                with open(p, "rb") as fh:
                    content = fh.read()
                if with_meta:
                    snap[os.path.relpath(p, self.dir)] = (content, st.st_mtime_ns, st.st_ino)
                else:
                    snap[os.path.relpath(p, self.dir)] = content
        return snap

"""./check <ID> <quick|thorough> [--replay FILE]

exit 0  property held on everything explored (KNOWN-FINDING lines allowed)
exit 1  + line "VIOLATION property=<id> replay=<path>"
exit 2  harness error (never a violation)
"""
import glob
import importlib
import json
import multiprocessing
import os
import sys
import time
import collections
import traceback

from harness import core

import faulthandler
import signal
faulthandler.register(signal.SIGUSR1, all_threads=True)


def load_known(prop):
    path = os.path.join(core.VERIF, "known_findings.json")
    if not os.path.exists(path):
        return []
    with open(path) as f:
        data = json.load(f)
    return [k for k in data.get("known", []) if k.get("property") == prop]


def do_replay(mod, path):
    with open(path) as f:
        data = json.load(f)
    return data, core.replay_case(mod, data["check"], data["case"])


def main(argv):
    if len(argv) < 2:
        print(__doc__)
        return 2
    prop = argv[0].upper()
    tier = argv[1]
    replay = None
    only = None
    if "--replay" in argv:
        replay = argv[argv.index("--replay") + 1]
    if "--only" in argv:
        only = argv[argv.index("--only") + 1].split(",")
    seed = int(os.environ.get("VERIF_SEED", "1") or "1")
    scale = float(os.environ.get("VERIF_SCALE", "1"))
    modname = "harness.props.%s" % prop.lower()
    t0 = time.time()
    try:
        mod = importlib.import_module(modname)
    except Exception:
        traceback.print_exc()
        print("HARNESS-ERROR cannot import %s" % modname)
        return 2

    known = load_known(prop)
    known_sigs = sorted(set(k["signature"] for k in known))

    if replay is not None:
        data, v = do_replay(mod, replay)
        if v is None:
            print("replay passes: %s" % replay)
            return 0
        if v.sig in known_sigs:
            print("KNOWN-FINDING: property=%s %s" % (prop, v.sig))
            return 0
        print("replay fails: %s\n  %s" % (v.sig, v.detail))
        print("VIOLATION property=%s replay=%s" % (prop, replay))
        return 1

    violations = []
    stale_known = []
    # 1. known findings: re-confirm with their committed replays
    for k in known:
        rp = os.path.join(core.VERIF, k["replay"])
        try:
            data, v = do_replay(mod, rp)
        except Exception:
            traceback.print_exc()
            print("HARNESS-ERROR replay of known finding %s" % rp)
            return 2
        if v is not None and v.sig == k["signature"]:
            print("KNOWN-FINDING: property=%s %s" % (prop, k["what"]))
        elif v is not None and v.sig not in known_sigs:
            violations.append({"sig": v.sig, "detail": v.detail,
                               "replay": rp, "check": data["check"]})
        else:
            stale_known.append(k["signature"])
    # 2. regression tier: committed replays must pass (or be known)
    replays_rerun = 0
    for rp in sorted(glob.glob(os.path.join(core.VERIF, "replays",
                                            "%s-*.json" % prop))):
        try:
            data, v = do_replay(mod, rp)
        except Exception:
            traceback.print_exc()
            print("HARNESS-ERROR replay %s" % rp)
            return 2
        replays_rerun += 1
        if v is not None and v.sig not in known_sigs:
            violations.append({"sig": v.sig, "detail": v.detail,
                               "replay": rp, "check": data["check"]})

    # 3. generated search
    tasks = []
    thorough = tier == "thorough"
    for c in mod.CHECKS:
        if only and c.name not in only:
            continue
        if c.strategy is not None:
            n = int((c.thorough if thorough else c.quick) * scale)
            nshards = c.shards or (16 if thorough else 4)
            nshards = max(1, min(nshards, n // 20 or 1))
            per = max(1, n // nshards)
            for s in range(nshards):
                tasks.append((modname, c.name, tier, seed, s, nshards, per,
                              known_sigs))
        else:
            nshards = c.shards or (16 if thorough else 8)
            for s in range(nshards):
                tasks.append((modname, c.name, tier, seed, s, nshards, 0,
                              known_sigs))
    nproc = int(os.environ.get("VERIF_PROCS", "16" if thorough else "8"))
    results = []
    if not violations:
        if nproc <= 1 or len(tasks) <= 1:
            results = [core.run_shard(t) for t in tasks]
        else:
            # (an executor, unlike multiprocessing.Pool, notices a worker
            # that was killed, e.g. by the OOM killer, instead of hanging)
            import concurrent.futures as cf
            ctx = multiprocessing.get_context("fork")
            try:
                with cf.ProcessPoolExecutor(min(nproc, len(tasks)),
                                            mp_context=ctx) as pool:
                    results = list(pool.map(core.run_shard, tasks))
            except cf.process.BrokenProcessPool:
                print("HARNESS-ERROR a worker process died (killed?); "
                      "inconclusive")
                return 2

    # 4. merge
    per_check = collections.OrderedDict()
    harness_errors = []
    for r in results:
        m = per_check.setdefault(r["check"], {
            "evals": 0, "nontrivial": set(), "classes": collections.Counter(),
            "samples": [], "known_hits": collections.Counter()})
        m["evals"] += r["evals"]
        m["nontrivial"] |= r["nontrivial"]
        m["classes"] += r["classes"]
        if len(m["samples"]) < 4:
            m["samples"].extend(r["samples"][:4 - len(m["samples"])])
        m["known_hits"] += r["known_hits"]
        if r.get("violation"):
            violations.append(r["violation"])
        if r.get("harness_error"):
            harness_errors.append((r["check"], r["harness_error"]))

    checks_by_name = dict((c.name, c) for c in mod.CHECKS)
    evaluations = sum(m["evals"] for m in per_check.values())
    distinct = sum(len(m["nontrivial"]) for m in per_check.values())
    samples = []
    rules = []
    detail = {}
    exhaustive_all = bool(per_check)
    for name, m in per_check.items():
        c = checks_by_name[name]
        for s in m["samples"][:3]:
            samples.append({"check": name, "case": s})
        rules.append("[%s] %s" % (name, c.rule))
        detail[name] = {
            "evaluations": m["evals"],
            "distinct_nontrivial": len(m["nontrivial"]),
            "classes": dict(m["classes"].most_common(40)),
            "known_excluded": dict(m["known_hits"]),
            "exhaustive": bool(c.exhaustive),
            "engine": "hypothesis" if c.strategy is not None
                      else "enumeration",
        }
        exhaustive_all = exhaustive_all and bool(c.exhaustive)
    wall = time.time() - t0
    evidence = {
        "property_id": prop,
        "tier": tier if tier in ("quick", "thorough") else "quick",
        "seed": seed,
        "level": getattr(mod, "LEVEL", "exploration"),
        "coverage": {
            "evaluations": evaluations,
            "distinct_nontrivial": distinct,
            "rule": getattr(mod, "RULE", "") + " Per check: " + " ".join(rules),
            "samples": samples,
            "exhaustive": exhaustive_all,
            "per_check": detail,
            "replays_rerun": replays_rerun,
            "known_findings_confirmed": [k["signature"] for k in known
                                         if k["signature"] not in stale_known],
            "known_findings_stale": stale_known,
            "repo": core.REPO,
        },
        "assumptions": list(getattr(mod, "ASSUMPTIONS", [])),
        "wall_s": round(wall, 2),
        "violations": len(violations),
    }
    if not only and not os.environ.get("VERIF_NO_EVIDENCE"):
        os.makedirs(os.path.join(core.VERIF, "evidence"), exist_ok=True)
        evpath = os.path.join(core.VERIF, "evidence", "%s.json" % prop)
        with open(evpath, "w") as f:
            json.dump(evidence, f, indent=1, sort_keys=True, default=repr)

    for name, m in per_check.items():
        print("  %-28s cases=%-7d nontrivial=%-7d %s" % (
            name, m["evals"], len(m["nontrivial"]),
            ("known-excluded=%d" % sum(m["known_hits"].values()))
            if m["known_hits"] else ""))
    print("%s %s: %d cases, %d distinct non-trivial, %.1fs" % (
        prop, tier, evaluations, distinct, wall))
    if harness_errors:
        for name, err in harness_errors[:3]:
            print("HARNESS-ERROR in check %s:\n%s" % (name, err))
        # a violation found by another check stands on its own (its replay file re-runs the
        # judge); without one the run is inconclusive
        if not violations:
            return 2
    if violations:
        seen = set()
        for v in violations:
            key = (v["check"], v["sig"])
            if key in seen:
                continue
            seen.add(key)
            print("  violated [%s] %s\n    %s" % (v["check"], v["sig"],
                                                  core.short(v["detail"], 600)))
            print("VIOLATION property=%s replay=%s" % (prop, v["replay"]))
        return 1
    return 0


if __name__ == "__main__":
    sys.exit(main(sys.argv[1:]))

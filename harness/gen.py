"""Shared Hypothesis strategies and small helpers (values, contexts, flows)."""
import copy

from hypothesis import strategies as st

KEYS = ["a", "b", "c", "d", "x", "y"]

falsy_leaves = st.sampled_from([0, False, None, "", 0.0])
truthy_leaves = st.one_of(st.integers(1, 9), st.sampled_from(["s", "t", "x", True, 2.5]))
leaves = st.one_of(falsy_leaves, truthy_leaves, st.builds(list),
                   st.lists(st.integers(0, 3), min_size=1, max_size=2))


def nested_dicts(keys=("a", "b", "c"), depth=3, leaf=leaves, max_size=3,
                 min_size=0):
    """Nested dicts with string keys, depth <= *depth* (depth 1 = flat)."""
    def level(d):
        if d <= 1:
            vals = st.one_of(leaf, st.builds(dict))
        else:
            vals = st.one_of(leaf, st.builds(dict), level(d - 1), level(d - 1))
        return st.dictionaries(st.sampled_from(list(keys)), vals,
                               min_size=min_size, max_size=max_size)
    return level(depth)


# leaves on which == and JSON identity coincide (typed equality)
json_leaves = st.one_of(st.integers(2, 9), st.sampled_from(["s", "t", "u"]),
                        st.none(), st.booleans(),
                        st.lists(st.integers(2, 5), max_size=2))


def contexts(depth=3, keys=("a", "b", "c", "d"), leaf=None, max_size=3):
    return nested_dicts(keys=keys, depth=depth,
                        leaf=leaf if leaf is not None else json_leaves,
                        max_size=max_size)


def mutable_ids(obj, acc=None):
    """ids of every mutable container reachable from obj."""
    if acc is None:
        acc = {}
    if isinstance(obj, dict):
        if id(obj) in acc:
            return acc
        acc[id(obj)] = obj
        for k, v in obj.items():
            mutable_ids(v, acc)
    elif isinstance(obj, (list, set, bytearray)):
        if id(obj) in acc:
            return acc
        acc[id(obj)] = obj
        if not isinstance(obj, bytearray):
            for v in obj:
                mutable_ids(v, acc)
    elif isinstance(obj, (tuple, frozenset)):
        for v in obj:
            mutable_ids(v, acc)
    elif hasattr(obj, "__dict__") and not isinstance(obj, type) \
            and not callable(obj):
        if id(obj) in acc:
            return acc
        acc[id(obj)] = obj
        mutable_ids(vars(obj), acc)
    return acc


def shared_mutables(a, b):
    ia, ib = mutable_ids(a), mutable_ids(b)
    return [ia[i] for i in ia if i in ib]


def ref_get(d, path):
    """Reference lookup over a list of keys. Returns (found, value)."""
    cur = d
    for k in path:
        if not isinstance(cur, dict) or k not in cur:
            return False, None
        cur = cur[k]
    return True, cur


def ref_set(d, path, value):
    """Set value at path creating / replacing intermediate non-dicts."""
    cur = d
    for k in path[:-1]:
        if not isinstance(cur.get(k), dict):
            cur[k] = {}
        cur = cur[k]
    cur[path[-1]] = value


def paths_of(d, prefix=()):
    """All key paths of a nested dict (interior and leaf)."""
    out = []
    if isinstance(d, dict):
        for k, v in d.items():
            out.append(prefix + (k,))
            out.extend(paths_of(v, prefix + (k,)))
    return out


def typed_eq(a, b):
    """Equality that distinguishes 1/True/1.0 and recurses containers."""
    if type(a) is not type(b):
        return False
    if isinstance(a, dict):
        return a.keys() == b.keys() and all(typed_eq(a[k], b[k]) for k in a)
    if isinstance(a, (list, tuple)):
        return len(a) == len(b) and all(typed_eq(x, y) for x, y in zip(a, b))
    return a == b

"""atheris (libFuzzer) target that drives the Hypothesis strategy of a check.

    python harness/fuzz_hyp.py <module> <check> <tier> <outdir> <known-sigs-json> [libFuzzer options]

libFuzzer mutates a byte string; Hypothesis' fuzz_one_input turns it into the
choices of the check's own strategy, so the generated *cases* are those the
random tier can generate, but which of them are kept and mutated further is
decided by the line coverage they reach inside lena (imported under atheris
instrumentation). The oracle is the check's judge, inside the target.

The first violation is written to <outdir>/violation.json (the case itself, so the
parent re-judges it without atheris or Hypothesis) and stops the fuzzer.
Cases that were non-trivial by the check's rule are appended to
<outdir>/cases.jsonl (a bounded sample) and the counters to <outdir>/stats.json.
"""
import json
import os
import sys

HERE = os.path.dirname(os.path.dirname(os.path.abspath(__file__)))
sys.path.insert(0, HERE)
import atheris  # noqa

modname, checkname, tier, outdir, known = sys.argv[1:6]
known = set(json.loads(known))
argv = [sys.argv[0]] + sys.argv[6:] + ["-artifact_prefix=" + os.path.join(outdir, "art") + os.sep,
                                        os.path.join(outdir, "corpus")]

with atheris.instrument_imports(include=["lena"]):
    import importlib
    mod = importlib.import_module(modname)

from harness import core  # noqa
import hypothesis  # noqa
from hypothesis import given, settings, HealthCheck  # noqa

# Hypothesis 6.168's BytestringProvider.draw_integer compares the drawn bits with [min, max] without adding min,
# so integers(3, 4) (and every Fisher-Yates step of st.permutations) can never be drawn from bytes and the whole
# case is discarded. Offset the draw by min instead.
from hypothesis.internal.conjecture import providers as _prov  # noqa


def _draw_integer(self, min_value=None, max_value=None, *, weights=None, shrink_towards=0):
    if min_value is None and max_value is None:
        min_value, max_value = -(2 ** 127), 2 ** 127 - 1
    elif min_value is None:
        min_value = max_value - 2 ** 64
    elif max_value is None:
        max_value = min_value + 2 ** 64
    if min_value == max_value:
        return min_value
    span = max_value - min_value
    bits = span.bit_length()
    value = self._draw_bits(bits)
    while value > span:
        value = self._draw_bits(bits)
    return min_value + value


_prov.BytestringProvider.draw_integer = _draw_integer

check = [c for c in mod.CHECKS if c.name == checkname][0]
rec = core.Recorder(mod.PROPERTY, check, tier, 0, known)
rec.replay_dir = os.path.join(outdir, "replays")
STATE = {"kept": 0, "seen": set()}
CAP = 400


def flush():
    with open(os.path.join(outdir, "stats.json"), "w") as f:
        json.dump({"evals": rec.evals, "nontrivial": len(rec.nontrivial), "classes": dict(rec.classes),
                   "known_hits": dict(rec.known_hits)}, f)


@settings(database=None, deadline=None, suppress_health_check=list(HealthCheck), report_multiple_bugs=False)
@given(check.strategy(tier))
def test(case):
    before = len(rec.nontrivial)
    try:
        rec.run_case(case)
    except core.Violation:
        with open(os.path.join(outdir, "violation.json"), "w") as f:
            json.dump({"case": json.loads(json.dumps(case))}, f, default=repr)
        flush()
        raise
    if len(rec.nontrivial) > before and STATE["kept"] < CAP:
        # geometric thinning: all of the first 50, then every 2nd, 4th, ...
        n = len(rec.nontrivial)
        if n <= 50 or (n & (n - 1)) == 0 or n % 97 == 0:
            STATE["kept"] += 1
            with open(os.path.join(outdir, "cases.jsonl"), "a") as f:
                f.write(json.dumps(case, default=repr) + "\n")
    if rec.evals % 500 == 0:
        flush()


fuzz_one = test.hypothesis.fuzz_one_input


def test_one(data):
    try:
        fuzz_one(data)
    except core.Violation:
        raise
    except (core.HarnessError, MemoryError):
        with open(os.path.join(outdir, "harness_error.txt"), "a") as f:
            import traceback
            f.write(traceback.format_exc())
        raise
    finally:
        pass


atheris.Setup(argv, test_one)
atheris.Fuzz()

"""Child process of the C20 check: runs in a fresh interpreter.

stdin: JSON {"repo", "block": [modules made unimportable], "preimport": [...],
             "mode": "star" | "battery" | "chains", ...}
stdout: one JSON document (everything lena prints is captured).
"""
import io
import itertools
import json
import os
import re
import sys
import traceback

spec = json.load(sys.stdin)
sys.path.insert(0, spec["repo"])
for name in spec.get("block", []):
    sys.modules[name] = None
import warnings
warnings.simplefilter("ignore")

real_stdout = sys.stdout
sys.stdout = io.StringIO()
ADDR = re.compile(r"(0x[0-9a-fA-F]+|\b[0-9a-f]{9,}\b)")
CWD = os.getcwd()


def emit(obj):
    real_stdout.write(json.dumps(obj))
    real_stdout.flush()


def classify(exc):
    """(type name, bad?) - bad = an undefined name or an attribute missing on a lena module"""
    name = type(exc).__name__
    msg = str(exc)
    bad = False
    if isinstance(exc, (NameError, UnboundLocalError)):
        bad = True
    elif isinstance(exc, AttributeError) and re.search(r"module '?lena[\w.]*'? has no attribute", msg):
        bad = True
    elif isinstance(exc, ImportError) and "lena" in msg and not re.search(r"ROOT|numpy|jinja2", msg):
        bad = True
    where = ""
    if bad:
        tb = traceback.extract_tb(exc.__traceback__)
        for fr in reversed(tb):
            if os.sep + "lena" + os.sep in fr.filename:
                where = "%s:%d:%s" % (os.path.relpath(fr.filename, spec["repo"]), fr.lineno, fr.name)
                break
    return name, bad, where, msg[:200]


def describe(res):
    try:
        r = repr(res)
    except Exception as e:   # noqa
        r = "<repr failed: %s>" % type(e).__name__
    r = ADDR.sub("0x", r).replace(CWD, "<cwd>")
    return "%s:%s" % (type(res).__name__, r[:160])


def ident(v):
    return v


def pred(v):
    return True


ARGSETS = [
    (), (1,), ("a",), ("a.b",), ({"a": {"b": 1}},), ([0, 1, 2],), (ident,), ("a", 1), ("a", "{{b}}"), ("{{a}}",),
    ({"a": {"b": 1}}, "a.b"), ({"a": 1}, {"a": 2}), ([0, 1, 2], [1, 2]), (ident, ident), (2, 5), ("x", ident),
    ([ident],), (None,), ([[0, 1], [0, 2]],), (1.5,), ("a", "b", "c"), ((1, {"a": 1}),), (ident, 2), ("x", ident, "t"),
]
METHOD_ARGS = {
    "__call__": [(5,), ((5, {"a": 1}),), (("s", {"a": {"b": 2}}),), ()],
    "run": [([1, (2, {"a": 1}), "s"],), ([],)],
    "fill": [(1,), ((2, {"a": 1}),)],
    "fill_into": [(None, 1)],
    "compute": [()], "request": [()], "reset": [()],
    "scale": [(), (2,)], "add": [(1,)], "rows": [()],
}


def consume(res):
    if hasattr(res, "__next__"):
        return list(itertools.islice(res, 20))
    return res


def attempt(f, args):
    try:
        a = args
        if f.__name__ == "run" if hasattr(f, "__name__") else False:
            a = tuple(iter(x) if isinstance(x, list) else x for x in args)
        res = consume(f(*a))
    except BaseException as e:   # noqa
        if isinstance(e, (KeyboardInterrupt, SystemExit, MemoryError)):
            raise
        return None, ("exc",) + classify(e)
    return res, ("ok", describe(res))


def battery(pkgname):
    import importlib
    pkg = importlib.import_module(pkgname)
    out = []
    names = sorted(set(getattr(pkg, "__all__", None) or [n for n in vars(pkg) if not n.startswith("_")]))
    for name in names:
        obj = getattr(pkg, name, None)
        if obj is None or not callable(obj):
            continue
        if isinstance(obj, type) and issubclass(obj, BaseException):
            continue
        for ai, args in enumerate(ARGSETS):
            res, oc = attempt(obj, args)
            out.append(["%s%d" % (name, ai), oc])
            if res is None or not type(res).__module__.startswith("lena"):
                continue
            for mname, margs in sorted(METHOD_ARGS.items()):
                m = getattr(res, mname, None)
                if m is None or not callable(m):
                    continue
                for mi, ma in enumerate(margs):
                    r2, oc2 = attempt(m, ma)
                    out.append(["%s%d.%s%d" % (name, ai, mname, mi), oc2])
            try:
                out.append(["%s%d.repr" % (name, ai), ("ok", describe(res))])
            except BaseException as e:   # noqa
                out.append(["%s%d.repr" % (name, ai), ("exc",) + classify(e)])
    return out


def main():
    mode = spec["mode"]
    import importlib
    for m in spec.get("preimport", []):
        importlib.import_module(m)
    if mode == "star":
        ns = {}
        try:
            exec("from %s import *" % spec["pkg"], ns)
        except BaseException as e:   # noqa
            emit({"ok": False, "exc": type(e).__name__, "msg": str(e)[:300]})
            return
        emit({"ok": True, "n": len(ns)})
    elif mode == "battery":
        os.chdir(spec["cwd"])
        emit({"outcomes": battery(spec["pkg"]), "modules": sorted(m for m in sys.modules if m.startswith("lena"))})
    elif mode == "chains":
        importlib.import_module(spec["pkg"])
        res = []
        for item in spec["chains"]:
            ns = {}
            err = None
            for stmt in item.get("imports", []):
                try:
                    exec(stmt, ns)
                except BaseException as e:   # noqa
                    err = "%s: %s" % (type(e).__name__, e)
            cur = sys.modules.get("lena")
            ok = cur is not None
            for part in item["chain"][1:]:
                if not ok:
                    break
                if hasattr(cur, part):
                    cur = getattr(cur, part)
                else:
                    ok = False
            res.append(ok)
        emit({"resolved": res})


try:
    main()
except BaseException as e:   # noqa
    emit({"child_error": "".join(traceback.format_exception(type(e), e, e.__traceback__))[-2000:]})

"""atheris (libFuzzer) target for the string-level functions of lena.context.

Run by harness/props/c08.py (check fuzz_parsers) as a subprocess:
    python harness/fuzz_c08.py <corpus_dir> <crash_dir> -runs=N -seed=S
The oracle (fuzz_oracle in c08.py) is inside the target: a violated property
raises, libFuzzer saves the input under <crash_dir>. Every input the fuzzer
kept (coverage-increasing corpus) and every crash is re-judged by the check
in-process, without atheris, so replays do not need the fuzzer.
"""
import os
import sys

HERE = os.path.dirname(os.path.dirname(os.path.abspath(__file__)))
sys.path.insert(0, HERE)
import atheris  # noqa

corpus, crashes = sys.argv[1], sys.argv[2]
argv = [sys.argv[0]] + sys.argv[3:] + ["-artifact_prefix=" + crashes + os.sep, corpus]

with atheris.instrument_imports(include=["lena.context", "lena.context.functions", "lena.context.update_context",
                                         "lena.context.elements"]):
    from harness.props import c08


def test_one(data):
    c08.fuzz_oracle(data.decode("latin-1"))


atheris.Setup(argv, test_one)
atheris.Fuzz()
